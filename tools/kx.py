#!/usr/bin/env python3
"""Experiment runner: kx.py [-j N] [-t timeout] [--features F] <harness-substring>...  (memory-limited, prints a summary)"""
import json, os, subprocess, sys, time
sys.path.insert(0, os.path.dirname(os.path.abspath(__file__)))
import instrument, kani_run
from common import SCRATCH, WORK
args = sys.argv[1:]
j, t, feat = 8, 600, ""
hs = []
while args:
    a = args.pop(0)
    if a == "-j": j = int(args.pop(0))
    elif a == "-t": t = int(args.pop(0))
    elif a == "--features": feat = args.pop(0)
    else: hs.append(a)
instrument.instrument()
out_json = os.path.join(WORK, "kx-%d.json" % os.getpid())
cmd = ["cargo", "kani"] + kani_run.KANI_FLAGS + kani_run._feature_args(feat) + ["--export-json", out_json, "--harness-timeout", str(t), "-j", str(j), "--output-format", "terse"]
for h in hs: cmd += ["--harness", h]
t0 = time.time()
p = subprocess.run(cmd, cwd=SCRATCH, env=kani_run._env(feat), stdout=subprocess.PIPE, stderr=subprocess.STDOUT, text=True, errors="replace", preexec_fn=kani_run._limits)
open(os.path.join(WORK, "kx-last.log"), "w").write(p.stdout)
try:
    d = json.load(open(out_json))
except Exception:
    print("\n".join(l for l in p.stdout.splitlines() if not l.startswith("warning") and l.strip())[-4000:]); sys.exit(2)
for r in sorted(d["verification_results"]["results"], key=lambda r: r["harness_id"]):
    failed = [c for c in r["checks"] if c["status"].upper().startswith("FAIL")]
    cov = [c for c in r["checks"] if c["category"] == "cover"]
    print("%-70s %-8s %7.1fs checks=%d failed=%d cover=%s" % (r["harness_id"], r["status"], r["duration_ms"] / 1000, len(r["checks"]), len(failed), [c["status"] for c in cov]))
    for c in failed[:6]:
        print("      FAIL:", (c["description"] or "").replace("\n", " ")[:160], "@", c["location"].get("file", "")[-40:], c["location"].get("line"))
os.remove(out_json)
print("wall %.0fs" % (time.time() - t0))
