#!/usr/bin/env python3
"""Generate MANIFEST.json from contracts/properties.json (+ not_applicable.json)."""
import json, os, sys
sys.path.insert(0, os.path.dirname(os.path.abspath(__file__)))
from common import ROOT, load_json, dump_json
import catalog

props = load_json(os.path.join(ROOT, "contracts", "properties.json"))
na = load_json(os.path.join(ROOT, "contracts", "not_applicable.json"), [])
obs = catalog.load_catalog()
checks = []
for pid in sorted(props):
    m = props[pid]
    mine = [o for o in obs if pid in o["props"]]
    nC = sum(1 for o in mine if o["kind"] in "CVLR")
    nB = sum(1 for o in mine if o["kind"] == "B")
    checks.append({
        "property_id": pid,
        "quick_cmd": "./check %s --tier quick" % pid,
        "thorough_cmd": "./check %s --tier thorough" % pid,
        "evidence_file": "evidence/%s.json" % pid,
        "replay_cmd_template": "./check %s --replay {path}" % pid,
        "engine": "contracts",
        "level_claimed": {
            "category": m.get("level", "proof"),
            "text": m["claim"],
            "design_ref": m.get("design_ref", "DESIGN.md section 6"),
        },
        "level_note": m["level_note"] + " Catalogue: %d unbounded obligations (complete Kani harness / contract / Verus), %d bounded stand-ins (never counted as proved)." % (nC, nB),
        "technique": m.get("technique", "contract-based deductive verification: function contracts and pre/post obligations on the real code, discharged by Kani/CBMC in place on the real crate (callers of expensive callees are checked against executable statements of the callee contracts, kani::stub) and by Verus (lemmas over the contracts, mechanically extracted functions of lru.rs)"),
    })
manifest = {
    "version": 1,
    "setup_cmd": "./setup.sh",
    "hooks": {
        "guard": "kani (set by cargo-kani) / salsa_verif_replay (replay build); both only ever seen by the scratch copy /verif/.work/salsa",
        "enable": "tools/instrument.py copies /repo to /verif/.work/salsa and injects cfg(kani) contract attributes, child `mod verif` harness modules and the declared cfg(kani) substitutions P1-P4 on every run; /repo itself carries no hooks",
        "baseline_off_cmd": "cd /repo && cargo test --workspace --no-fail-fast --offline",
        "source_commits": [],
        "add_only": True,
    },
    "engines": [{
        "name": "contracts", "path": "check",
        "serves_properties": sorted(props),
        "kind_free_text": "contract-based deductive verification: Kani function contracts / proof harnesses over full symbolic domains on the real crate (CBMC), Verus lemmas and one extracted loop (Z3)",
    }],
    "checks": checks,
    "not_applicable": na,
    "notes": "Exit 2 + 'UNDECIDED ...' means the verifier could not decide (tool limit, lost anchor); it is never reported as a violation. Replays live under /verif/.work/replays.",
}
dump_json(os.path.join(ROOT, "MANIFEST.json"), manifest)
print("MANIFEST.json: %d checks, %d not_applicable" % (len(checks), len(na)))
