"""Shared paths and helpers for the salsa contract-verification machinery."""
import hashlib
import json
import os
import subprocess
import sys
import time

ROOT = os.path.dirname(os.path.dirname(os.path.abspath(__file__)))   # /verif (or a snapshot of it)
REPO = os.environ.get("VERIF_REPO", "/repo")
WORK = os.environ.get("VERIF_WORK", os.path.join(ROOT, ".work"))
SCRATCH = os.path.join(WORK, "salsa")            # instrumented copy of REPO (fixed path: cargo fingerprints)
TARGET = os.path.join(WORK, "target")            # cargo-kani target dir
TARGET_REPLAY = os.path.join(WORK, "target-replay")
CACHE = os.path.join(WORK, "cache")              # per-obligation results keyed by tree hash
REPLAYS = os.path.join(WORK, "replays")
CONTRACTS = os.path.join(ROOT, "contracts")
VERUS_DIR = os.path.join(ROOT, "verus")
# the committed evidence directory describes /repo only: a run against another tree (self test) writes elsewhere
EVIDENCE = os.environ.get("VERIF_EVIDENCE") or (
    os.path.join(ROOT, "evidence") if os.path.realpath(REPO) == "/repo" else os.path.join(WORK, "evidence-other-tree"))

OFFLINE_ENV = {"CARGO_NET_OFFLINE": "true"}


class Undecided(Exception):
    """Raised when the machinery cannot decide (anchor lost, build failure, tool limit)."""

    def __init__(self, reason):
        super().__init__(reason)
        self.reason = reason


def sha256_bytes(b):
    return hashlib.sha256(b).hexdigest()


def sha256_file(path):
    h = hashlib.sha256()
    with open(path, "rb") as f:
        for chunk in iter(lambda: f.read(1 << 20), b""):
            h.update(chunk)
    return h.hexdigest()


def hash_tree(root, exts=None, exclude_dirs=("target", ".git")):
    """Stable hash over (relative path, content) of every file below root."""
    h = hashlib.sha256()
    for d, dirs, files in os.walk(root):
        dirs[:] = sorted(x for x in dirs if x not in exclude_dirs)
        for f in sorted(files):
            if exts and not f.endswith(exts):
                continue
            p = os.path.join(d, f)
            h.update(os.path.relpath(p, root).encode())
            h.update(b"\0")
            h.update(sha256_file(p).encode())
            h.update(b"\0")
    return h.hexdigest()


def run(cmd, cwd=None, env=None, timeout=None, **kw):
    e = dict(os.environ)
    e.update(OFFLINE_ENV)
    if env:
        e.update(env)
    t0 = time.time()
    try:
        p = subprocess.run(cmd, cwd=cwd, env=e, stdout=subprocess.PIPE, stderr=subprocess.STDOUT,
                           timeout=timeout, text=True, errors="replace", **kw)
        return p.returncode, p.stdout, time.time() - t0
    except subprocess.TimeoutExpired as ex:
        out = ex.stdout or ""
        if isinstance(out, bytes):
            out = out.decode(errors="replace")
        return -9, out + "\n[TIMEOUT after %ss]" % timeout, time.time() - t0


def load_json(path, default=None):
    try:
        with open(path) as f:
            return json.load(f)
    except FileNotFoundError:
        return default


def dump_json(path, obj):
    os.makedirs(os.path.dirname(path), exist_ok=True)
    tmp = path + ".tmp%d" % os.getpid()
    with open(tmp, "w") as f:
        json.dump(obj, f, indent=1, sort_keys=False)
        f.write("\n")
    os.replace(tmp, path)


def log(*a):
    print(*a, file=sys.stderr, flush=True)
