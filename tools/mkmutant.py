#!/usr/bin/env python3
"""mkmutant.py <name> <file> <old> <new>  -> mutants/<name>.diff (old must occur exactly once in /repo/<file>)"""
import difflib, os, sys
name, f, old, new = sys.argv[1:5]
src = open(os.path.join("/repo", f)).read()
if src.count(old) != 1:
    sys.exit("pattern occurs %d times in %s" % (src.count(old), f))
mut = src.replace(old, new)
d = "".join(difflib.unified_diff(src.splitlines(True), mut.splitlines(True), "a/" + f, "b/" + f))
out = os.path.join(os.path.dirname(os.path.dirname(os.path.abspath(__file__))), "mutants", name + ".diff")
mode = "a" if len(sys.argv) > 5 and sys.argv[5] == "--append" else "w"
open(out, mode).write(d)
print(out, len(d.splitlines()), "lines")
