"""Verus obligations (single-file mode).  Filled in with the Verus units."""
from common import Undecided


def run_obligations(obs, tree_hash, use_cache=True):
    return {o["id"]: {"verdict": "undecided", "reason": "verus runner not built yet"} for o in obs}
