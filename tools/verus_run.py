"""Verus obligations (single-file mode; `cargo verus` cannot resolve vstd offline here).

Three kinds of generated file, rebuilt on every run under WORK/verus/:
  * dur.rs      = verus/refs.rs with the `//@ ` prefixes stripped and `//-` lines dropped, wrapped in
                  verus!{}, followed by verus/lemmas_dur.rs            (kinds R and L)
  * lru.rs      = verus/lru.template.rs with the bodies of the real functions of
                  /repo/src/function/eviction/lru.rs extracted mechanically and the ghost/invariant lines of
                  verus/lru.annot spliced in at textual anchors      (kind V)
  * <lemma>.rs  = verus/lemmas_*.rs as they are                      (kind L)
"""
import json
import os
import re
import subprocess
import time

from common import CACHE, REPO, SCRATCH, VERUS_DIR, WORK, Undecided, dump_json, load_json, log, sha256_bytes

OUT = os.path.join(WORK, "verus")


# --------------------------------------------------------------------------------------------
# extraction helpers
# --------------------------------------------------------------------------------------------
def extract_fn(src, name, impl_header=None):
    """Return (signature_text, body_text_without_outer_braces) of `fn name` (inside `impl_header` if given)."""
    start = 0
    if impl_header:
        start = src.find(impl_header)
        if start < 0:
            raise Undecided("anchor-lost:verus-extract:%s" % impl_header)
    m = re.compile(r"\bfn\s+%s\s*(<[^>]*>)?\s*\(" % re.escape(name)).search(src, start)
    if not m:
        raise Undecided("anchor-lost:verus-extract:fn %s" % name)
    i = src.index("{", m.end())
    sig = " ".join(src[m.start():i].split())
    depth, j = 0, i
    while True:
        c = src[j]
        if c == "{":
            depth += 1
        elif c == "}":
            depth -= 1
            if depth == 0:
                break
        j += 1
    return sig, src[i + 1:j]


def splice(body, annots, fname):
    """annots: list of (op, anchor, text). op in after|before. anchor must match exactly one line."""
    lines = body.split("\n")
    for op, anchor, text in annots:
        hits = [k for k, l in enumerate(lines) if anchor in l]
        if len(hits) != 1:
            raise Undecided("anchor-lost:verus-annot:%s:%r(%d matches)" % (fname, anchor, len(hits)))
        k = hits[0]
        ins = text.split("\n")
        if op == "loop":
            head = lines[k].rstrip()
            if not head.endswith("{"):
                raise Undecided("anchor-lost:verus-annot:%s:loop header %r does not end in '{'" % (fname, anchor))
            lines = lines[:k] + [head[:-1].rstrip()] + ins + [" " * (len(head) - len(head.lstrip())) + "{"] + lines[k + 1:]
        elif op == "after":
            lines = lines[:k + 1] + ins + lines[k + 1:]
        else:
            lines = lines[:k] + ins + lines[k:]
    return "\n".join(lines)


def parse_annot(path):
    """File format:  ## <fn> | <op> | <anchor>   followed by the lines to insert."""
    out = {}
    cur = None
    with open(path) as f:
        for line in f:
            if line.startswith("## "):
                fn, op, anchor = [p.strip() for p in line[3:].rstrip("\n").split(" | ", 2)]
                cur = [op, anchor, []]
                out.setdefault(fn, []).append(cur)
            elif line.startswith("#--"):
                continue
            elif cur is not None:
                cur[2].append(line.rstrip("\n"))
    return {fn: [(op, a, "\n".join(t).rstrip("\n")) for op, a, t in v] for fn, v in out.items()}


def build_dur():
    refs = open(os.path.join(VERUS_DIR, "refs.rs")).read().split("\n")
    out = []
    for l in refs:
        if l.rstrip().endswith("//-"):
            continue
        s = l.lstrip()
        if s.startswith(("//@ob", "//@ pre:", "//@ post:", "//@ note:")):
            out.append(l)
        elif s.startswith("//@ "):
            out.append(l[:len(l) - len(s)] + s[4:])
        elif s == "//@":
            out.append("")
        else:
            out.append(l)
    lem = open(os.path.join(VERUS_DIR, "lemmas_dur.rs")).read()
    txt = "use vstd::prelude::*;\nverus! {\n" + "\n".join(out) + "\n" + lem + "\n} // verus!\nfn main() {}\n"
    p = os.path.join(OUT, "dur.rs")
    open(p, "w").write(txt)
    return p


def build_lru(repo_src):
    src_path = os.path.join(repo_src, "src/function/eviction/lru.rs")
    if not os.path.exists(src_path):
        raise Undecided("anchor-lost:verus-extract:file-missing:src/function/eviction/lru.rs")
    src = open(src_path).read()
    tmpl = open(os.path.join(VERUS_DIR, "lru.template.rs")).read()
    annots = parse_annot(os.path.join(VERUS_DIR, "lru.annot"))
    expected_sigs = {}
    for m in re.finditer(r"//@sig (\w+): (.*)", tmpl):
        expected_sigs[m.group(1)] = " ".join(m.group(2).split())
    dropped = []
    for m in re.finditer(r"@@BODY:(\w+)@@", tmpl):
        name = m.group(1)
        sig, body = extract_fn(src, name)
        if name in expected_sigs and expected_sigs[name] != sig:
            raise Undecided("anchor-lost:verus-extract:signature of %s changed: %r" % (name, sig))
        # dropped by the extraction: attributes on the fn (e.g. #[inline]) and the trait-impl header.
        # Rewritten by the extraction (the only token-level change, stated in the template header): a `&self`
        # method that takes the mutex becomes a `&mut self` method that borrows it (`lock()` -> `get_mut()`):
        # the lock is what makes the access exclusive, and Verus has no specification for interior mutability
        # through a lock guard.
        body = body.replace("self.set.lock()", "self.set.get_mut()")
        body = splice(body, annots.get(name, []), name)
        tmpl = tmpl.replace("@@BODY:%s@@" % name, body)
        dropped.append(name)
    p = os.path.join(OUT, "lru.rs")
    open(p, "w").write(tmpl)
    return p


def run_verus(path, rlimit=None, timeout=600):
    cmd = ["verus", path, "--output-json", "--time"]
    if rlimit:
        cmd += ["--rlimit", str(rlimit)]
    t0 = time.time()
    try:
        p = subprocess.run(cmd, cwd=OUT, stdout=subprocess.PIPE, stderr=subprocess.PIPE, text=True, errors="replace", timeout=timeout)
    except subprocess.TimeoutExpired:
        return None, "verus timed out after %ds" % timeout, time.time() - t0
    try:
        data = json.loads(p.stdout[p.stdout.index("{"):])
    except Exception:
        data = None
    return data, p.stderr, time.time() - t0


def run_obligations(obs, tree_hash, use_cache=True, tier="quick"):
    os.makedirs(OUT, exist_ok=True)
    results = {}
    by_file = {}
    for o in obs:
        by_file.setdefault(o["verus_file"], []).append(o)
    for vf, group in by_file.items():
        if vf == "refs.rs" or vf == "lemmas_dur.rs":
            path = build_dur()
        elif vf.startswith("lru"):
            path = build_lru(SCRATCH if os.path.isdir(os.path.join(SCRATCH, "src")) else REPO)
        else:
            path = os.path.join(OUT, vf)
            open(path, "w").write(open(os.path.join(VERUS_DIR, vf)).read())
        key = sha256_bytes(open(path, "rb").read())[:24]
        cpath = os.path.join(CACHE, "verus-" + key + ".json")
        cached = load_json(cpath) if use_cache else None
        if cached is not None:
            data, err, dt, was_cached = cached["data"], cached["err"], cached["dt"], True
        else:
            data, err, dt = run_verus(path, rlimit=60 if tier == "thorough" else None)
            was_cached = False
        crate = os.path.basename(path)[:-3]
        per_fn = {}
        ok_overall = False
        if data is not None:
            vr = data.get("verification-results", {})
            ok_overall = bool(vr.get("success")) and vr.get("errors", 1) == 0
            for mod in data.get("times-ms", {}).get("smt", {}).get("smt-run-module-times", []):
                for fb in mod.get("function-breakdown", []):
                    per_fn[fb["function"]] = fb
            if ok_overall and not was_cached:
                dump_json(cpath, {"data": {"verification-results": vr, "times-ms": {"smt": data["times-ms"]["smt"], "total": data["times-ms"].get("total")}}, "err": "", "dt": dt})
        log("[verus] %s: %s (%.1fs)%s" % (os.path.basename(path), "ok" if ok_overall else "FAILED", dt, " cached" if was_cached else ""))
        for o in group:
            fb = None
            for k, v in per_fn.items():
                if k == crate + "::" + o["harness_fn"] or k.endswith("::" + o["harness_fn"]):
                    fb = v
            res = {"duration_s": (fb or {}).get("time-micros", 0) / 1e6, "checks_total": 1 if fb else 0, "cached": was_cached,
                   "file_wall_s": round(dt, 2), "rlimit": (fb or {}).get("rlimit")}
            if data is None:
                res.update(verdict="undecided", reason="verus produced no result: " + (err or "")[-400:].replace("\n", " | "))
            elif ok_overall and fb and fb.get("success"):
                res.update(verdict="discharged")
            elif ok_overall and not fb:
                res.update(verdict="undecided", reason="vacuous: verus generated no SMT query for %s" % o["harness_fn"])
            else:
                vr = data.get("verification-results", {})
                msg = (err or "")[-3000:]
                if vr.get("encountered-vir-error") or "error[E" in msg or "not supported" in msg or "unsupported" in msg:
                    res.update(verdict="undecided", reason="verus rejected the extracted text: " + msg[-500:].replace("\n", " | "))
                elif "rlimit" in msg or "Resource limit" in msg or "timed out" in msg:
                    res.update(verdict="undecided", reason="verus resource limit: " + msg[-300:].replace("\n", " | "))
                elif fb is not None and fb.get("success"):
                    res.update(verdict="discharged")
                elif fb is not None:
                    first = re.search(r"error: ([^\n]*)", msg)
                    res.update(verdict="violation", reason="verus: %s in %s" % (first.group(1) if first else "obligation failed", o["harness_fn"]),
                               output=msg)
                else:
                    res.update(verdict="undecided", reason="verus failed elsewhere in the file: " + msg[-300:].replace("\n", " | "))
            results[o["id"]] = res
    return results
