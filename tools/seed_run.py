#!/usr/bin/env python3
"""seed_run.py [--all] <seed-id> ...: run the checks against a seeded change kept under seeded/<id>/.

The patch is applied to a scratch copy of /repo (outside /repo and /verif, removed afterwards); the
machinery runs against that copy through VERIF_REPO with its own work directory, exactly as `./check`
runs against /repo.  What is run:
  * `./check <property the seed targets>` (quick tier) -> VIOLATION / OK lines;
  * every catalogued obligation whose harness module belongs to a source file the patch touches
    (and, with --all, the whole catalogue), to see which *other* obligations notice the change.
Result -> seeded/<id>/result.json  (never evidence: evidence is only written for /repo itself).
"""
import json, os, re, shutil, subprocess, sys, time
HERE = os.path.dirname(os.path.abspath(__file__))
ROOT = os.path.dirname(HERE)
SCR = "/tmp/verif-seed-repo"
WORK = os.environ.get("VERIF_SEED_WORK", os.path.join(ROOT, ".work-seed"))


def expected_obligations(sid):
    """Obligations named for this seed in mutants/index.json (entry `seed_<id>`), or None."""
    idx = json.load(open(os.path.join(ROOT, "mutants", "index.json")))
    for m in idx:
        if m["name"] == "seed_" + sid:
            return m.get("only") or m.get("expect")
    return None


def run_one(sid, run_all, fast=False):
    d = os.path.join(ROOT, "seeded", sid)
    meta = json.load(open(os.path.join(d, "meta.json")))
    prop = meta["property"]
    if os.path.exists(SCR):
        shutil.rmtree(SCR)
    subprocess.run(["rsync", "-a", "--exclude", "/target", "--exclude", ".git", "/repo/", SCR + "/"], check=True)
    p = subprocess.run(["patch", "-p1", "-s", "-i", os.path.join(d, "patch.diff")], cwd=SCR, stdout=subprocess.PIPE, stderr=subprocess.STDOUT, text=True)
    if p.returncode != 0:
        print(sid, "PATCH-FAILED", p.stdout[-300:])
        return
    files = re.findall(r"^\+\+\+ b/(\S+)", open(os.path.join(d, "patch.diff")).read(), re.M)
    env = dict(os.environ)
    env.update(VERIF_REPO=SCR, VERIF_WORK=WORK, VERIF_EVIDENCE=os.path.join(WORK, "evidence-seed"))
    t0 = time.time()
    out = {"seed": sid, "property": prop, "files": files, "checks": {}, "obligations": {}}
    # 1. the property's own check
    claimed = prop in json.load(open(os.path.join(ROOT, "contracts", "properties.json")))
    if claimed:
        cmd = [os.path.join(ROOT, "check"), prop, "--tier", "quick"]
        exp = expected_obligations(sid) if fast else None
        if exp:
            # fast mode: only the obligations the self-test index names for this seed (a full property
            # check of e.g. C01 on a changed tree re-runs ~50 harnesses, 10-20 min)
            cmd += ["--only", ",".join(exp)]
            out["only"] = exp
        r = subprocess.run(cmd, cwd=ROOT, env=env, stdout=subprocess.PIPE, stderr=subprocess.PIPE, text=True)
        lines = [l for l in r.stdout.splitlines() if l.startswith(("VIOLATION", "UNDECIDED", "OK", "KNOWN"))]
        out["checks"][prop] = {"exit": r.returncode, "lines": lines}
        print(sid, "check", prop, "exit", r.returncode, *lines, sep="\n   ", flush=True)
    else:
        out["checks"][prop] = {"exit": None, "lines": ["property not claimed (not_applicable)"]}
    # 2. obligations of the touched files (or all)
    sys.path.insert(0, HERE)
    import catalog
    obs = catalog.load_catalog()
    want = []
    for o in obs:
        rel = os.path.relpath(o["file"], os.path.join(ROOT, "contracts", "src")) if o["backend"] == "kani" else ""
        src = "src/" + rel[:-len(".verif.rs")] + ".rs" if rel.endswith(".verif.rs") else ""
        if run_all or (not fast and (src in files or (o["backend"] == "verus" and any("lru" in f for f in files) and "lru" in o.get("verus_file", "")))):
            want.append(o["id"])
    if want:
        r = subprocess.run([sys.executable, os.path.join(HERE, "runall.py"), "--tier", "quick"] + ([] if run_all else want),
                           cwd=ROOT, env=env, stdout=subprocess.PIPE, stderr=subprocess.PIPE, text=True)
        for l in r.stdout.splitlines():
            f = l.split()
            if len(f) >= 5 and f[3] in ("discharged", "violation", "undecided", "not-run"):
                if run_all or f[0] in want:
                    out["obligations"][f[0]] = {"verdict": f[3], "props": f[5] if len(f) > 5 else "", "reason": " ".join(f[6:])[:200]}
    viol = sorted(k for k, v in out["obligations"].items() if v["verdict"] == "violation")
    und = sorted(k for k, v in out["obligations"].items() if v["verdict"] == "undecided")
    out["violated_obligations"] = viol
    out["undecided_obligations"] = und
    out["caught_by_property_check"] = bool(claimed and out["checks"][prop]["exit"] == 1)
    out["wall_s"] = round(time.time() - t0)
    json.dump(out, open(os.path.join(d, "result.json"), "w"), indent=1)
    print(sid, "violated:", viol, "undecided:", und, "caught_by_property_check:", out["caught_by_property_check"], "wall", out["wall_s"], flush=True)
    shutil.rmtree(SCR, ignore_errors=True)


if __name__ == "__main__":
    a = sys.argv[1:]
    run_all = "--all" in a
    fast = "--fast" in a
    for sid in [x for x in a if x not in ("--all", "--fast")]:
        run_one(sid, run_all, fast)
