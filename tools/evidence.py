"""Evidence writer: /verif/evidence/<id>.json, rewritten on every run from that run's results."""
import os
import re

from common import CONTRACTS, EVIDENCE, ROOT, VERUS_DIR, dump_json

GLOBAL_TRUSTED = [
    "kani-compiler 0.68 (MIR -> goto translation), CBMC 6.11 + CaDiCaL",
    "Verus 0.2026.09.13 + Z3 (lemmas and the extracted functions of eviction/lru.rs)",
    "rustc / cargo; std, thin-vec, boxcar, smallvec, crossbeam as compiled (executed symbolically, trusted only where stubbed); hashbrown / indexmap / hashlink only where P4 does not apply (interned.rs, dependency_graph.rs, zalsa.rs)",
    "tools/instrument.py (anchor-based injection of cfg(kani) attributes and child modules; nothing inside a function body is edited)",
    "cfg(kani) substitutions P1 (tracing events -> no-op), P2 (sequential sync shim: Mutex=RefCell, constant ThreadId), P3 (interned memory_usage not compiled), P4 (association-list models of IndexSet / HashSet / LinkedHashSet / hashbrown HashTable+HashMap / the page-pool map and the per-handle page cache map: contracts/collections.rs, inline-array backed - that the real collections implement these documented semantics is trusted)",
    "harness-side placement of heap objects in typed stack / static cells (DESIGN.md 14.1): the query stack's Vec<ActiveQuery> buffer (Vec::from_raw_parts over a 4-frame cell: real push/pop code, a fifth nested frame fails the harness) and, for Storage harnesses, Arc<Zalsa>'s heap cell (a repr(C) struct with ArcInner's layout)",
]
GLOBAL_ASSUMPTIONS = [
    "Kani: machine integers with overflow checks on; termination not proved; single-threaded (atomics sequential); panics are failures (panic=abort)",
    "concurrency and unwinding are outside every obligation",
    "harness Configuration impls stand for all user configurations; macro-generated code (components/) is not verified except where an obligation runs on the expansion of the real macros (K-MAC-1)",
    "obligations flagged `stubs` check one function against executable statements of its callees' contracts (kani::stub); which of those contracts are discharged by other obligations and which are assumed is listed in DESIGN.md 13.4",
]
SCAN = [("vk::assume(", "precondition (type invariant / range) stated in the harness"),
        ("kani::assume(", "precondition"), ("kani::stub(", "stubbed function (trusted stand-in)"),
        ("stub_verified(", "callee replaced by its verified contract (modular, not an assumption)"),
        ("unsafe ", "unsafe block in harness code (constructing states through private fields)"),
        ("external_body", "Verus external_body (trusted specification)"),
        ("assume_specification", "Verus assume_specification (trusted specification)"),
        ("admit(", "Verus admit"), ("assume(false)", "path cut")]


def scan_files(files):
    out = []
    for f in sorted(set(files)):
        try:
            txt = open(f).read()
        except OSError:
            continue
        hits = []
        for pat, what in SCAN:
            n = txt.count(pat)
            if n:
                hits.append("%dx %s [%s]" % (n, pat.strip(), what))
        if hits:
            out.append("%s: %s" % (os.path.relpath(f, ROOT), "; ".join(hits)))
    return out


def write(prop, tier, seed, meta, obs, results, wall, violations=0, info=None, undecided=None):
    proved_kinds = ("C", "V", "L", "R")
    proved = [o for o in obs if o["kind"] in proved_kinds]
    bounded = [o for o in obs if o["kind"] == "B"]

    def verdict(o):
        return results.get(o["id"], {}).get("verdict", "not-run")

    fns = {}
    for o in obs:
        for f in o["fns"]:
            fns.setdefault(f, []).append(o["id"])
    samples = []
    for o in obs[:6]:
        r = results.get(o["id"], {})
        samples.append({"obligation": o["id"], "kind": o["kind"], "harness": o.get("harness"), "functions": o["fns"],
                        "pre": o["pre"], "post": o["post"], "bound": o["bound"], "status": verdict(o),
                        "solver_time_s": r.get("duration_s"), "cbmc_checks": r.get("checks_total")})
    level = meta.get("level", "proof")
    cov = {
        "obligations": len(proved),
        "discharged": sum(1 for o in proved if verdict(o) == "discharged"),
        "checker_cmd": "cargo kani -Z function-contracts -Z stubbing --exact --harness <harness> (in /verif/.work/salsa = /repo + injected cfg(kani) contracts); verus <file>.rs",
        "trusted_base": GLOBAL_TRUSTED + meta.get("trusted", []),
        "bounded_checks": [{"name": o["id"], "bound": o["bound"], "status": verdict(o),
                            "solver_time_s": results.get(o["id"], {}).get("duration_s")} for o in bounded],
        "bounded_discharged": sum(1 for o in bounded if verdict(o) == "discharged"),
        "obligation_status": {o["id"]: {"kind": o["kind"], "status": verdict(o), "backend": "kani/cbmc+cadical" if o["backend"] == "kani" else "verus/z3",
                                        "solver_time_s": results.get(o["id"], {}).get("duration_s"),
                                        "cbmc_checks": results.get(o["id"], {}).get("checks_total"),
                                        "cover_satisfied": results.get(o["id"], {}).get("cover_satisfied"),
                                        "cached": results.get(o["id"], {}).get("cached", False),
                                        **({"reason": results[o["id"]].get("reason")} if results.get(o["id"], {}).get("reason") else {})}
                              for o in obs},
        "functions_under_contract": [{"function": f, "obligations": ids} for f, ids in sorted(fns.items())],
        "backends": sorted({"kani/cbmc+cadical" if o["backend"] == "kani" else "verus/z3" for o in obs}),
        "solver_time_s_total": round(sum((results.get(o["id"], {}).get("duration_s") or 0) for o in obs), 2),
        "cbmc_checks_total": sum((results.get(o["id"], {}).get("checks_total") or 0) for o in obs),
        "samples": samples,
        "composition": meta.get("composition", ""),
        "not_covered": meta.get("not_covered", ""),
        "exhaustive": False,
    }
    if level == "other" or not proved:
        level = "other"
        cov["explanation"] = meta.get("explanation") or ("bounded contract checks only (see bounded_checks); "
                                                         "no unbounded obligation is claimed for this property")
    if undecided:
        cov["undecided"] = undecided
    if info:
        cov["instrumentation"] = {"edits": info.get("edits"), "harness_modules": info.get("modules"),
                                  "repo_tree_hash": info.get("repo_hash"), "contracts_hash": info.get("contracts_hash")}
    files = [o["file"] for o in obs] + [os.path.join(CONTRACTS, "support.rs")]
    doc = {
        "property_id": prop, "tier": tier, "seed": seed, "level": level, "coverage": cov,
        "assumptions": GLOBAL_ASSUMPTIONS + meta.get("assumptions", []) + scan_files(files),
        "wall_s": round(wall, 2), "violations": violations,
    }
    dump_json(os.path.join(EVIDENCE, prop + ".json"), doc)
    return doc
