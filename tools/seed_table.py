#!/usr/bin/env python3
"""seed_table.py [results-root]: markdown table of the seeded changes (seeded/<id>/meta.json + result.json).

results-root defaults to /verif/seeded; pass the seeded/ directory of a `vp run` snapshot to read its results.
"""
import json, os, sys
ROOT = os.path.dirname(os.path.dirname(os.path.abspath(__file__)))
src = sys.argv[1] if len(sys.argv) > 1 else os.path.join(ROOT, "seeded")
notes = {}
np = os.path.join(ROOT, "seeded", "NOTES.json")
if os.path.exists(np):
    notes = json.load(open(np))
rows = []
for sid in sorted(os.listdir(os.path.join(ROOT, "seeded"))):
    d = os.path.join(ROOT, "seeded", sid)
    if not os.path.isdir(d):
        continue
    meta = json.load(open(os.path.join(d, "meta.json")))
    rp = os.path.join(src, sid, "result.json")
    res = json.load(open(rp)) if os.path.exists(rp) else None
    where = ", ".join((meta.get("functions_changed") or meta.get("files_changed") or [])[:2])
    if res is None:
        verdict, by = "not run", ""
    elif res.get("caught_by_property_check"):
        lines = [l for l in res["checks"][meta["property"]]["lines"] if l.startswith("VIOLATION")]
        obs = sorted({l.split("obligation=")[1].split()[0] for l in lines if "obligation=" in l})
        verdict, by = "**caught**", ", ".join(obs)
    else:
        other = res.get("violated_obligations") or []
        und = res.get("undecided_obligations") or []
        claimed = res["checks"][meta["property"]]["exit"] is not None
        if other:
            verdict, by = "caught by another property's obligation", ", ".join(other)
        elif not claimed:
            verdict, by = "missed (property not claimed)", ""
        else:
            verdict, by = "missed", ("undecided: " + ", ".join(und)) if und else ""
    rows.append((sid, meta["property"], where, verdict, by, notes.get(sid, "")))
print("| seed | property | change (function) | result | obligation(s) | note |")
print("|---|---|---|---|---|---|")
for r in rows:
    print("| " + " | ".join(x.replace("|", "/") for x in r) + " |")
n = len(rows)
c = sum(1 for r in rows if r[3].startswith("**caught"))
print()
print("%d seeded changes, %d caught by the check of the property they target." % (n, c))
