#!/usr/bin/env python3
"""runall.py [--tier T] [--timeout S] [--jobs N] [id-substring ...]: run catalogued obligations (all properties), print one verdict line each."""
import os, sys, time
sys.path.insert(0, os.path.dirname(os.path.abspath(__file__)))
import catalog, instrument, kani_run, verus_run
from common import Undecided
args = sys.argv[1:]
tier, tmo, jobs, subs = "thorough", None, None, []
while args:
    a = args.pop(0)
    if a == "--tier": tier = args.pop(0)
    elif a == "--timeout": tmo = int(args.pop(0))
    elif a == "--jobs": jobs = int(args.pop(0))
    else: subs.append(a)
obs = [o for o in catalog.load_catalog() if (tier == "thorough" or o["tier"] == "quick")]
if subs:
    obs = [o for o in obs if any(s in o["id"] for s in subs)]
if tmo:
    for o in obs: o["timeout"] = min(o["timeout"], tmo)
if jobs:
    kani_run.LIGHT_JOBS = jobs
h, info = instrument.instrument()
res = {}
t0 = time.time()
try:
    res.update(verus_run.run_obligations([o for o in obs if o["backend"] == "verus"], h))
    res.update(kani_run.run_obligations([o for o in obs if o["backend"] == "kani"], h))
except Undecided as u:
    print("UNDECIDED", u.reason)
for o in obs:
    r = res.get(o["id"], {"verdict": "not-run"})
    print("%-14s %-2s %-8s %-11s %7.1fs %s %s" % (o["id"], o["kind"], o["tier"], r["verdict"], r.get("duration_s", 0) or 0, ",".join(o["props"]), (r.get("reason") or "")[:200]))
print("wall %.0fs" % (time.time() - t0))
