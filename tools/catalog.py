"""Obligation catalogue, parsed from the `//@ob` headers in contracts/src/*.verif.rs and verus/*.rs.

Header grammar (one logical line, then optional `//@ pre:` / `//@ post:` / `//@ note:` lines):

    //@ob id=K-EDGE-2c kind=C props=C25,C07 fn=A::f,B::g [tier=thorough] [bound=..] [timeout=600] [flags=stub,noreplay,modular,should_panic]
    //@ pre: ...
    //@ post: ...
    <attributes>
    fn harness_name() {

kind: C (complete: loop-free / constant trip count, full symbolic domain), B (bounded, never counted as
proved), V (Verus, extracted real code), L (Verus lemma over contracts), R (reference pair side).
"""
import os
import re

from common import CONTRACTS, VERUS_DIR
from instrument import verif_modules

HDR = re.compile(r"^\s*//@ob\s+(.*)$")
KV = re.compile(r"(\w+)=(\S+)")
FN = re.compile(r"^\s*(?:pub(?:\([^)]*\))?\s+)?(?:proof\s+|exec\s+|spec\s+)?fn\s+(\w+)")
MOD = re.compile(r"^\s*(?:pub(?:\([^)]*\))?\s+)?mod\s+(\w+)\s*\{")


def _module_path(src_rel):
    # src/function/memo.rs -> function::memo::verif ; src/zalsa.rs -> zalsa::verif
    p = src_rel[len("src/"):-len(".rs")]
    return "::".join(p.split("/")) + "::verif"


def parse_file(path, base_mod, backend):
    obs = []
    with open(path) as f:
        lines = f.readlines()
    mod_stack = []        # (name, brace depth at which it closes)
    depth = 0
    cur = None
    for ln, line in enumerate(lines, 1):
        m = HDR.match(line)
        if m:
            kv = dict(KV.findall(m.group(1)))
            cur = {
                "id": kv["id"], "kind": kv.get("kind", "C"), "props": kv.get("props", "").split(","),
                "fns": [x for x in kv.get("fn", "").split(",") if x], "tier": kv.get("tier", "quick"),
                "bound": kv.get("bound"), "timeout": int(kv.get("timeout", "300")),
                "flags": [x for x in kv.get("flags", "").split(",") if x],
                "panic_msg": None, "pre": "", "post": "", "note": "", "file": path, "line": ln,
                "backend": backend, "features": kv.get("features", ""),
            }
            continue
        s = line.strip()
        if cur is not None and s.startswith("//@"):
            body = s[3:].strip()
            for key in ("pre", "post", "note", "panic"):
                if body.startswith(key + ":"):
                    val = body[len(key) + 1:].strip()
                    if key == "panic":
                        cur["panic_msg"] = val
                    else:
                        cur[key] = (cur[key] + " " + val).strip()
            continue
        mm = MOD.match(line)
        if mm and not s.startswith("//"):
            mod_stack.append((mm.group(1), depth))
        if cur is not None:
            fm = FN.match(line)
            if fm and not s.startswith("//"):
                cur["harness_fn"] = fm.group(1)
                mods = [base_mod] + [m_[0] for m_ in mod_stack] if base_mod else [m_[0] for m_ in mod_stack]
                cur["harness"] = "::".join(mods + [fm.group(1)])
                obs.append(cur)
                cur = None
        # brace tracking (good enough for our own harness files: no braces in strings/comments on mod lines)
        code = re.sub(r"//.*$", "", line)
        code = re.sub(r'"(?:[^"\\]|\\.)*"', '""', code)
        code = re.sub(r"'(?:[^'\\]|\\.)'", "''", code)
        for ch in code:
            if ch == "{":
                depth += 1
            elif ch == "}":
                depth -= 1
                if mod_stack and mod_stack[-1][1] == depth:
                    mod_stack.pop()
    return obs


def load_catalog():
    obs = []
    for rel, path in verif_modules():
        obs += parse_file(path, _module_path(rel), "kani")
    prog = os.path.join(CONTRACTS, "prog.rs")
    if os.path.exists(prog):
        obs += parse_file(prog, "verif_prog", "kani")
    if os.path.isdir(VERUS_DIR):
        for f in sorted(os.listdir(VERUS_DIR)):
            if f.endswith(".rs"):
                for o in parse_file(os.path.join(VERUS_DIR, f), "", "verus"):
                    o["verus_file"] = f
                    obs.append(o)
    ids = {}
    for o in obs:
        if o["id"] in ids:
            raise SystemExit("duplicate obligation id %s (%s and %s)" % (o["id"], o["file"], ids[o["id"]]["file"]))
        ids[o["id"]] = o
    return obs


def for_property(obs, prop, tier):
    out = []
    for o in obs:
        if prop in o["props"] and (tier == "thorough" or o["tier"] == "quick"):
            out.append(o)
    return out


if __name__ == "__main__":
    import sys
    obs = load_catalog()
    props = {}
    for o in obs:
        for p in o["props"]:
            props.setdefault(p, []).append(o)
    for p in sorted(props):
        q = [o for o in props[p] if o["tier"] == "quick"]
        print(p, "quick=%d" % len(q), "total=%d" % len(props[p]),
              "C=%d B=%d V=%d L=%d" % tuple(sum(1 for o in props[p] if o["kind"] == k) for k in "CBVL"))
    if len(sys.argv) > 1:
        for o in obs:
            print(o["id"], o["kind"], o["tier"], o["harness"], o["props"])
