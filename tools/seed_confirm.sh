#!/bin/bash
# seed_confirm.sh <PROP> <a|b> : confirm a sub-agent's seeded change in a scratch worktree of /repo
# (outside /repo and /verif), then file it under /verif/seeded/<PROP><var>/.
#   1. demo passes on the unmodified tree   2. patch applies, crate builds, demo FAILS
#   3. the whole existing test suite still passes with the patch
set -u
P=$1; V=$2
SRC=/tmp/seed/$P/OUT/$V
WT=/tmp/confirm
DST=/verif/seeded/$P$V
export CARGO_NET_OFFLINE=true
[ -f "$SRC/patch.diff" ] || { echo "no patch in $SRC"; exit 2; }
if [ ! -d $WT ]; then git -C /repo worktree add --detach $WT HEAD >/dev/null 2>&1 || exit 2; fi
cd $WT && git checkout -q -- . && git clean -fdq -e target
DEMOS=$(ls $SRC/*.rs 2>/dev/null)
[ -n "$DEMOS" ] || { echo "no demo in $SRC"; exit 2; }
NAMES=""
for d in $DEMOS; do cp $d tests/; NAMES="$NAMES --test $(basename $d .rs)"; done
echo "== demo on unmodified tree"
cargo test --offline $NAMES >/tmp/confirm-$P$V-clean.log 2>&1; RC_CLEAN=$?
tail -3 /tmp/confirm-$P$V-clean.log
echo "== apply patch"
git apply $SRC/patch.diff || { echo "patch does not apply"; exit 2; }
cargo test --offline $NAMES >/tmp/confirm-$P$V-mut.log 2>&1; RC_MUT=$?
grep -E "^test result|^test .* FAILED|error(\[|:)" /tmp/confirm-$P$V-mut.log | head -8
echo "== full suite with patch (demo excluded)"
for d in $DEMOS; do rm -f tests/$(basename $d); done
cargo nextest run --workspace --no-fail-fast --offline --test-threads 8 >/tmp/confirm-$P$V-suite.log 2>&1; RC_SUITE=$?
SUMMARY=$(grep -E "Summary|tests run" /tmp/confirm-$P$V-suite.log | tail -1)
echo "$SUMMARY"
git checkout -q -- . && git clean -fdq -e target
echo "RESULT $P$V demo_clean_rc=$RC_CLEAN demo_mut_rc=$RC_MUT suite_rc=$RC_SUITE"
if [ $RC_CLEAN -eq 0 ] && [ $RC_MUT -ne 0 ] && [ $RC_SUITE -eq 0 ] && ! grep -q "error\[E\|could not compile" /tmp/confirm-$P$V-mut.log; then
  mkdir -p $DST
  cp $SRC/patch.diff $DST/patch.diff
  for d in $DEMOS; do cp $d $DST/; done
  [ -f $SRC/DEMO.md ] && cp $SRC/DEMO.md $DST/
  python3 - "$P" "$V" "$SRC" "$DST" "$SUMMARY" <<'E'
import json, sys, os
p, v, src, dst, summary = sys.argv[1:6]
try:
    agent = json.load(open(os.path.join(src, "meta.json")))
except Exception:
    agent = {}
meta = {
    "id": p + v, "property": p,
    "files_changed": agent.get("files_changed"), "functions_changed": agent.get("functions_changed"),
    "needs_to_manifest": agent.get("what_it_needs_to_manifest"),
    "why_existing_tests_pass": agent.get("why_existing_tests_pass"),
    "demo": [f for f in os.listdir(dst) if f.endswith(".rs")],
    "confirmed_by_me": {
        "where": "scratch worktree /tmp/confirm of /repo HEAD (removed afterwards)",
        "ran": ["cargo test --offline --test <demo> on the unmodified tree: pass",
                "git apply patch.diff; cargo test --offline --test <demo>: FAIL",
                "cargo nextest run --workspace --no-fail-fast --offline --test-threads 8 with the patch (demo removed): " + summary.strip()],
    },
    "produced_by": "independent sub-agent given only the property text and its own worktree",
}
json.dump(meta, open(os.path.join(dst, "meta.json"), "w"), indent=1)
E
  echo "KEPT $DST"
else
  echo "REJECTED $P$V"
fi
