#!/bin/bash
# check_all.sh [tier]: run every claimed property's check on /repo, one after the other; print one line each
cd "$(dirname "$0")/.."
T=${1:-quick}
for p in $(python3 -c "import json;print(' '.join(sorted(json.load(open('contracts/properties.json')))))"); do
  s=$(date +%s)
  out=$(./check $p --tier $T 2>/dev/null | grep -E "^(OK|VIOLATION|UNDECIDED|KNOWN)" | tr '\n' ';')
  echo "$p exit=$? $(( $(date +%s) - s ))s $out"
done
