#!/usr/bin/env python3
"""Seeded-mutant self test.

For every entry of mutants/index.json: copy /repo to a scratch directory outside /repo and /verif, apply the
mutant's patch there, run `./check <property> --only <obligations>` against that copy (VERIF_REPO) and demand
that the named obligations report a violation.  /repo itself is never touched.  Results -> selftest/RESULTS.md.

  selftest.py [name ...]          run the named mutants (default: all)
"""
import json, os, shutil, subprocess, sys, time
HERE = os.path.dirname(os.path.abspath(__file__))
ROOT = os.path.dirname(HERE)
SCR = os.environ.get("VERIF_SELFTEST_DIR", "/tmp/verif-selftest-repo")

def main():
    idx = json.load(open(os.path.join(ROOT, "mutants", "index.json")))
    want = set(sys.argv[1:])
    rows = []
    for m in idx:
        if want and m["name"] not in want:
            continue
        if os.path.exists(SCR):
            shutil.rmtree(SCR)
        subprocess.run(["rsync", "-a", "--exclude", "/target", "--exclude", ".git", "/repo/", SCR + "/"], check=True)
        p = subprocess.run(["patch", "-p1", "-s", "-i", os.path.join(ROOT, "mutants", m["patch"])], cwd=SCR, stdout=subprocess.PIPE, stderr=subprocess.STDOUT, text=True)
        if p.returncode != 0:
            rows.append((m["name"], m["property"], "PATCH-FAILED", p.stdout[-200:], 0)); continue
        env = dict(os.environ); env["VERIF_REPO"] = SCR
        t0 = time.time()
        cmd = [os.path.join(ROOT, "check"), m["property"], "--tier", m.get("tier", "quick")]
        if m.get("only"):
            cmd += ["--only", ",".join(m["only"])]
        r = subprocess.run(cmd, cwd=ROOT, env=env, stdout=subprocess.PIPE, stderr=subprocess.STDOUT, text=True)
        dt = time.time() - t0
        hit = [l for l in r.stdout.splitlines() if l.startswith("VIOLATION")]
        got = sorted({l.split("obligation=")[1].split()[0] for l in hit if "obligation=" in l})
        exp = sorted(m["expect"])
        if m.get("must_pass"):      # a property-preserving edit: any VIOLATION here is a false alarm of ours
            ok = r.returncode == 0 and not hit
        else:
            ok = r.returncode == 1 and all(e in got for e in exp)
        replayed = sum(1 for l in hit if "no-failing-input-found" not in l)
        rows.append((m["name"], m["property"], ("QUIET-AS-REQUIRED" if m.get("must_pass") else "CAUGHT") if ok else "MISSED(exit=%d got=%s)" % (r.returncode, got),
                     "expected %s; got %s; %d with failing input replayed on real code" % (exp, got, replayed), dt))
        print(rows[-1], flush=True)
    shutil.rmtree(SCR, ignore_errors=True)
    os.makedirs(os.path.join(ROOT, "selftest"), exist_ok=True)
    path = os.path.join(ROOT, "selftest", "RESULTS.md")
    old = {}
    if os.path.exists(path):
        for l in open(path):
            if l.startswith("| ") and not l.startswith("| mutant") and not l.startswith("| ---"):
                c = [x.strip() for x in l.strip().strip("|").split("|")]
                old[c[0]] = c
    for n, prop, verdict, detail, dt in rows:
        old[n] = [n, prop, verdict, detail, "%.0fs" % dt]
    with open(path, "w") as f:
        f.write("# Seeded-mutant self test (tools/selftest.py)\n\nEach mutant is a property-breaking edit of /repo code that still compiles; it is applied to a scratch copy and the named obligations must fail.\n\n")
        f.write("| mutant | property | verdict | detail | wall |\n| --- | --- | --- | --- | --- |\n")
        for n in sorted(old):
            f.write("| " + " | ".join(old[n]) + " |\n")
    bad = [r for r in rows if r[2] not in ("CAUGHT", "QUIET-AS-REQUIRED")]
    sys.exit(1 if bad else 0)

if __name__ == "__main__":
    main()
