"""Mechanical instrumentation of a scratch copy of /repo.

Every run:
  1. rsync REPO (minus target/, .git/) to WORK/salsa.
  2. apply contracts/patches.txt (declared cfg(kani)-only substitutions + helper constructors)
     and contracts/contracts.txt (function-contract attributes), each located by a textual anchor that
     must match exactly one line of the named file.
  3. append `#[cfg(any(kani, salsa_verif_replay))] #[path = ".."] mod verif;` to each source file
     for which contracts/src/<path>.verif.rs exists, and `mod verif_support;` to lib.rs.

Nothing inside an existing function body is edited.  A lost / ambiguous anchor raises Undecided.
"""
import os
import re
import subprocess

from common import CONTRACTS, REPO, SCRATCH, VERUS_DIR, WORK, Undecided, hash_tree, sha256_bytes, log

GUARD = "#[cfg(any(kani, salsa_verif_replay))]"


def parse_edits(path):
    """Format:  ### <id> | <file> | <op> | <anchor>   followed by the text block."""
    edits = []
    cur = None
    if not os.path.exists(path):
        return edits
    with open(path) as f:
        for line in f:
            if line.startswith("### "):
                parts = [p.strip() for p in line[4:].rstrip("\n").split(" | ", 3)]
                if len(parts) != 4:
                    raise SystemExit("bad edit header in %s: %r" % (path, line))
                cur = {"id": parts[0], "file": parts[1], "op": parts[2], "anchor": parts[3], "text": []}
                edits.append(cur)
            elif line.startswith("#--"):
                continue                      # comment line in the edit file
            elif cur is not None:
                cur["text"].append(line)
    for e in edits:
        while e["text"] and not e["text"][-1].strip():
            e["text"].pop()
        e["text"] = "".join(e["text"]).replace("@CONTRACTS@", CONTRACTS)
    return edits


def apply_edit(lines, e, fname):
    if e["op"] == "append":
        return lines + ["\n", e["text"] if e["text"].endswith("\n") else e["text"] + "\n"]
    hits = [i for i, l in enumerate(lines) if e["anchor"] in l]
    if len(hits) != 1:
        raise Undecided("anchor-lost:%s:%s(%d matches in %s)" % (e["id"], e["anchor"][:60], len(hits), fname))
    i = hits[0]
    indent = re.match(r"\s*", lines[i]).group(0)
    block = [indent + t + "\n" if t.strip() else "\n" for t in e["text"].split("\n")]
    if e["text"].endswith("\n"):
        block = block[:-1]
    if e["op"] == "before":
        return lines[:i] + block + lines[i:]
    if e["op"] == "after":
        return lines[:i + 1] + block + lines[i + 1:]
    if e["op"] == "replace":
        return lines[:i] + block + lines[i + 1:]
    raise SystemExit("unknown op %r" % e["op"])


def verif_modules():
    """[(relative source file, absolute harness module path)]"""
    out = []
    base = os.path.join(CONTRACTS, "src")
    for d, _, files in os.walk(base):
        for f in sorted(files):
            if f.endswith(".verif.rs"):
                rel = os.path.relpath(os.path.join(d, f), base)
                out.append(("src/" + rel[:-len(".verif.rs")] + ".rs", os.path.join(d, f)))
    return sorted(out)


def instrument(repo=REPO, scratch=SCRATCH, quiet=False):
    """Returns (tree_hash, info dict)."""
    os.makedirs(WORK, exist_ok=True)
    final = scratch
    scratch = final.rstrip("/") + ".stage"      # edits happen here; identical files in `final` keep their mtime
    os.makedirs(scratch, exist_ok=True)
    os.makedirs(final, exist_ok=True)
    r = subprocess.run(["rsync", "-a", "--delete", "--exclude", "/target", "--exclude", ".git",
                        repo.rstrip("/") + "/", scratch.rstrip("/") + "/"],
                       stdout=subprocess.PIPE, stderr=subprocess.STDOUT, text=True)
    if r.returncode != 0:
        raise Undecided("rsync-failed:" + r.stdout[-300:])
    repo_hash = hash_tree(scratch, exclude_dirs=("target", ".git", "book", "benches", "examples", "tests"))
    edits = parse_edits(os.path.join(CONTRACTS, "patches.txt")) + parse_edits(os.path.join(CONTRACTS, "contracts.txt"))
    by_file = {}
    for e in edits:
        by_file.setdefault(e["file"], []).append(e)
    applied = []
    for fname, es in sorted(by_file.items()):
        p = os.path.join(scratch, fname)
        if not os.path.exists(p):
            raise Undecided("anchor-lost:%s:file-missing:%s" % (es[0]["id"], fname))
        with open(p) as f:
            lines = f.readlines()
        for e in es:
            lines = apply_edit(lines, e, fname)
            applied.append(e["id"])
        with open(p, "w") as f:
            f.writelines(lines)
    mods = verif_modules()
    for rel, hpath in mods:
        p = os.path.join(scratch, rel)
        if not os.path.exists(p):
            raise Undecided("anchor-lost:verif-module:file-missing:%s" % rel)
        with open(p, "a") as f:
            f.write('\n%s\n#[path = "%s"]\n#[allow(warnings, clippy::all)]\npub(crate) mod verif;\n' % (GUARD, hpath))
    with open(os.path.join(scratch, "src/lib.rs"), "a") as f:
        f.write('\n%s\n#[path = "%s"]\n#[allow(warnings, clippy::all)]\npub(crate) mod verif_support;\n'
                % (GUARD, os.path.join(CONTRACTS, "support.rs")))
        f.write('\n%s\n#[path = "%s"]\n#[allow(warnings, clippy::all)]\npub(crate) mod verif_refs;\n'
                % (GUARD, os.path.join(VERUS_DIR, "refs.rs")))
        f.write('\n#[cfg(kani)]\n#[path = "%s"]\n#[allow(warnings, clippy::all)]\npub(crate) mod verif_collections;\n'
                % os.path.join(CONTRACTS, "collections.rs"))
        prog = os.path.join(CONTRACTS, "prog.rs")
        if os.path.exists(prog):
            # real salsa programs written with the public macros: their expansions name `::salsa::`
            f.write('\n%s\nextern crate self as salsa;\n%s\n#[path = "%s"]\npub(crate) mod verif_prog;\n' % (GUARD, GUARD, prog))
    r = subprocess.run(["rsync", "-rlpgoD", "--checksum", "--delete", "--exclude", "/target",
                        scratch.rstrip("/") + "/", final.rstrip("/") + "/"],
                       stdout=subprocess.PIPE, stderr=subprocess.STDOUT, text=True)
    if r.returncode != 0:
        raise Undecided("rsync-failed:" + r.stdout[-300:])
    contracts_hash = sha256_bytes((hash_tree(CONTRACTS) + hash_tree(VERUS_DIR)).encode())
    tree_hash = sha256_bytes((repo_hash + contracts_hash).encode())[:24]
    if not quiet:
        log("[instrument] repo=%s contracts=%s edits=%d modules=%d" % (repo_hash[:10], contracts_hash[:10], len(applied), len(mods)))
    return tree_hash, {"repo_hash": repo_hash, "contracts_hash": contracts_hash, "edits": applied,
                       "modules": [m[0] for m in mods]}


if __name__ == "__main__":
    import sys
    try:
        h, info = instrument()
        print(h, info)
    except Undecided as u:
        print("UNDECIDED", u.reason)
        sys.exit(2)
