"""Run Kani obligations on the instrumented scratch copy; per-obligation result cache keyed by tree hash."""
import json
import os
import re
import resource
import subprocess
import time

from common import CACHE, OFFLINE_ENV, SCRATCH, TARGET, WORK, Undecided, dump_json, load_json, log

KANI_FLAGS = ["-Z", "function-contracts", "-Z", "stubbing", "-Z", "unstable-options"]
MEM_LIMIT_GB = int(os.environ.get("VERIF_MEM_GB", "16"))
LIGHT_JOBS = int(os.environ.get("VERIF_JOBS", "10"))
HEAVY_JOBS = int(os.environ.get("VERIF_HEAVY_JOBS", "7"))
HEAVY_THRESHOLD = 1200         # declared timeout from which an obligation runs in the heavy group (measured 5-8 GB each)


def _limits():
    lim = MEM_LIMIT_GB << 30
    resource.setrlimit(resource.RLIMIT_AS, (lim, lim))


def _env(features):
    e = dict(os.environ)
    e.update(OFFLINE_ENV)
    e["CARGO_TARGET_DIR"] = TARGET + ("-" + features.replace(",", "_") if features else "")
    e.setdefault("CARGO_TERM_COLOR", "never")
    return e


def _feature_args(features):
    return ["--features", features] if features else []


def build(features=""):
    """Codegen for every harness of the crate.  Build failure / ICE => Undecided."""
    t0 = time.time()
    p = subprocess.run(["cargo", "kani"] + KANI_FLAGS + _feature_args(features) + ["--only-codegen"],
                       cwd=SCRATCH, env=_env(features), stdout=subprocess.PIPE, stderr=subprocess.STDOUT,
                       text=True, errors="replace")
    dt = time.time() - t0
    if p.returncode != 0:
        tail = "\n".join(l for l in p.stdout.splitlines() if not l.startswith("warning"))[-3000:]
        os.makedirs(WORK, exist_ok=True)
        with open(os.path.join(WORK, "last_build_failure.log"), "w") as f:
            f.write(p.stdout)
        kind = "kani-compiler-ice" if ("internal compiler error" in p.stdout or "panicked at" in p.stdout) else "build-failed"
        raise Undecided("%s: see %s/last_build_failure.log :: %s" % (kind, WORK, tail[-600:].replace("\n", " | ")))
    return dt


def _classify(res, ob):
    """Map a Kani JSON harness result to our verdict."""
    checks = res.get("checks", [])
    failed = [c for c in checks if c.get("status", "").upper() in ("FAILURE", "FAILED")]
    covers = [c for c in checks if c.get("category") == "cover" or "cover" in (c.get("function") or "") and False]
    cover_checks = [c for c in checks if c.get("category") == "cover"]
    cov_sat = [c for c in cover_checks if c.get("status", "").upper() == "SATISFIED"]
    out = {
        "status": res.get("status"), "duration_s": res.get("duration_ms", 0) / 1000.0,
        "checks_total": len(checks), "checks_failed": len(failed),
        "unreachable": sum(1 for c in checks if c.get("status", "").upper() == "UNREACHABLE"),
        "cover_total": len(cover_checks), "cover_satisfied": len(cov_sat),
        "failed_checks": [{"description": c.get("description"), "function": c.get("function"),
                           "category": c.get("category"),
                           "location": "%s:%s" % ((c.get("location") or {}).get("file"), (c.get("location") or {}).get("line"))}
                          for c in failed][:20],
    }
    should_panic = "should_panic" in ob["flags"]
    if res.get("status") == "Success":
        if should_panic:
            # Kani accepts any panic; we demand exactly the expected one
            msgs = [c["description"] for c in out["failed_checks"]]
            exp = ob.get("panic_msg")
            if exp and not (msgs and all(exp in (m or "") for m in msgs)):
                out["verdict"] = "violation"
                out["reason"] = "should_panic harness panicked with %r, expected message containing %r" % (msgs, exp)
                return out
            out["verdict"] = "discharged"
            return out
        if cover_checks and len(cov_sat) < len(cover_checks):
            out["verdict"] = "undecided"
            out["reason"] = "vacuous: %d of %d cover checks unsatisfied" % (len(cover_checks) - len(cov_sat), len(cover_checks))
            return out
        if not checks:
            out["verdict"] = "undecided"
            out["reason"] = "no checks generated"
            return out
        out["verdict"] = "discharged"
        return out
    # failure
    if not checks:
        out["verdict"] = "undecided"
        out["reason"] = "cbmc did not finish (timeout / out of memory / crash)"
        return out
    if should_panic and not failed:
        out["verdict"] = "violation"
        out["reason"] = "expected panic did not happen"
        return out
    real = [c for c in failed if c.get("category") not in ("unwind",) and "unwinding assertion" not in (c.get("description") or "")]
    unsupported = [c for c in real if "is not currently supported by Kani" in (c.get("description") or "")
                   or (c.get("category") in ("unsupported_construct", "missing_definition"))
                   or "verif-model-capacity" in (c.get("description") or "")]
    real = [c for c in real if c not in unsupported]
    if real:
        out["verdict"] = "violation"
        out["reason"] = "; ".join("%s @ %s" % (c.get("description"), (c.get("location") or {}).get("line")) for c in real[:4])
    elif unsupported:
        out["verdict"] = "undecided"
        out["reason"] = "unsupported construct / model limit reached: " + str(unsupported[0].get("description"))
    elif failed:
        out["verdict"] = "undecided"
        out["reason"] = "unwinding bound too small (only unwinding assertions failed)"
    else:
        out["verdict"] = "undecided"
        out["reason"] = "cbmc did not finish (no failed check reported: timeout / out of memory / crash)"
    return out


def _run_group(obs, jobs, timeout_s, features, tag):
    if not obs:
        return {}
    out_json = os.path.join(WORK, "kani-%s-%d.json" % (tag, os.getpid()))
    if os.path.exists(out_json):
        os.remove(out_json)
    cmd = ["cargo", "kani"] + KANI_FLAGS + _feature_args(features) + [
        "--export-json", out_json, "--harness-timeout", str(timeout_s), "-j", str(jobs),
        "--output-format", "terse", "--exact"]
    for o in obs:
        cmd += ["--harness", o["harness"]]
    t0 = time.time()
    log("[kani] %s: %d harnesses, -j %d, timeout %ds" % (tag, len(obs), jobs, timeout_s))
    p = subprocess.run(cmd, cwd=SCRATCH, env=_env(features), stdout=subprocess.PIPE, stderr=subprocess.STDOUT,
                       text=True, errors="replace", preexec_fn=_limits)
    dt = time.time() - t0
    with open(os.path.join(WORK, "kani-%s-last.log" % tag), "w") as f:
        f.write(p.stdout)
    data = load_json(out_json)
    results = {}
    if data is None:
        tail = "\n".join(l for l in p.stdout.splitlines() if not l.startswith("warning"))[-800:]
        if "could not compile" in p.stdout or "internal compiler error" in p.stdout or "error[E" in p.stdout:
            with open(os.path.join(WORK, "last_build_failure.log"), "w") as f:
                f.write(p.stdout)
            kind = "kani-compiler-ice" if "internal compiler error" in p.stdout else "build-failed"
            raise Undecided("%s: see %s/last_build_failure.log :: %s" % (kind, WORK, tail[-500:].replace("\n", " | ")))
        for o in obs:
            results[o["id"]] = {"verdict": "undecided", "reason": "kani produced no result file: " + tail.replace("\n", " | "),
                                "duration_s": dt, "checks_total": 0}
        return results
    by_h = {r["harness_id"]: r for r in data.get("verification_results", {}).get("results", [])}
    for o in obs:
        r = by_h.get(o["harness"])
        if r is None:
            results[o["id"]] = {"verdict": "undecided", "reason": "harness not found by kani (renamed or cfg'd out): " + o["harness"],
                                "duration_s": 0, "checks_total": 0}
        else:
            results[o["id"]] = _classify(r, o)
    try:
        os.remove(out_json)
    except OSError:
        pass
    return results


def run_obligations(obs, tree_hash, use_cache=True):
    """obs: catalogue entries with backend == kani. Returns {id: result}."""
    results = {}
    todo = []
    cdir = os.path.join(CACHE, tree_hash)
    for o in obs:
        c = load_json(os.path.join(cdir, o["id"] + ".json")) if use_cache else None
        if c is not None and c.get("verdict") in ("discharged", "violation"):
            c["cached"] = True
            results[o["id"]] = c
        else:
            todo.append(o)
    if not todo:
        return results
    by_feat = {}
    for o in todo:
        by_feat.setdefault(o.get("features", ""), []).append(o)
    for feat, group in by_feat.items():
        # one invocation (one crate build); the longest-running harnesses are listed first so that they
        # overlap with the many short ones.  Every kept harness was measured below 8 GB (DESIGN.md 12).
        group = sorted(group, key=lambda o: -o["timeout"])
        # memory: the harnesses with a declared timeout >= HEAVY_THRESHOLD were measured at 5-8 GB resident each;
        # ten of them at once exceed the 62 GB of this machine, so they run first with HEAVY_JOBS in parallel,
        # the (many, small) others afterwards with LIGHT_JOBS.
        heavy = [o for o in group if o["timeout"] >= HEAVY_THRESHOLD]
        light = [o for o in group if o["timeout"] < HEAVY_THRESHOLD]
        for part, jobs, tag in ((heavy, HEAVY_JOBS, "heavy"), (light, LIGHT_JOBS, "light")):
            if not part:
                continue
            r = _run_group(part, jobs, max(o["timeout"] for o in part), feat, tag)
            for oid, res in r.items():
                res["cached"] = False
                results[oid] = res
                if res.get("verdict") in ("discharged", "violation"):
                    dump_json(os.path.join(cdir, oid + ".json"), res)
    return results


def concrete_playback(ob, features=""):
    """Re-run one failing harness with concrete playback; returns (list of byte vectors | None, raw output)."""
    cmd = ["cargo", "kani"] + KANI_FLAGS + _feature_args(features) + [
        "-Z", "concrete-playback", "--concrete-playback=print", "--harness-timeout", str(max(ob["timeout"], 300)),
        "--output-format", "terse", "--exact", "--harness", ob["harness"]]
    p = subprocess.run(cmd, cwd=SCRATCH, env=_env(features), stdout=subprocess.PIPE, stderr=subprocess.STDOUT,
                       text=True, errors="replace", preexec_fn=_limits)
    out = p.stdout
    # Kani prints one playback test per failed check AND per satisfied cover; return every distinct vector list
    cands = []
    for m in re.finditer(r"let concrete_vals: Vec<Vec<u8>> = vec!\[(.*?)\];", out, re.S):
        vals = []
        for vm in re.finditer(r"vec!\[([0-9,\s]*)\]", m.group(1)):
            vals.append([int(x) for x in vm.group(1).replace(" ", "").split(",") if x != ""])
        if vals not in cands:
            cands.append(vals)
    if not cands:
        return None, out
    return cands, out
