"""Counterexample replay on the real code.

A failed Kani obligation is re-run with concrete playback; the byte vectors Kani prints (one per
symbolic draw, call order, little endian) are fed to the *same obligation body* compiled as an ordinary
`#[test]` (cfg salsa_verif_replay) with the repository's own toolchain.  If that test panics on an
assertion, the failing input is confirmed on the real code.
"""
import os
import subprocess
import sys
import time

from common import OFFLINE_ENV, REPLAYS, SCRATCH, TARGET_REPLAY, dump_json, load_json, log
import kani_run


def _run_test(harness, vals, timeout=1800):
    env = dict(os.environ)
    env.update(OFFLINE_ENV)
    env["CARGO_TARGET_DIR"] = TARGET_REPLAY
    env["RUSTFLAGS"] = (env.get("RUSTFLAGS", "") + " --cfg salsa_verif_replay").strip()
    env["VERIF_REPLAY_BYTES"] = ";".join(",".join(str(b) for b in v) for v in vals)
    env["RUST_BACKTRACE"] = "0"
    cmd = ["cargo", "test", "--offline", "--lib", "-p", "salsa", harness, "--", "--exact", "--test-threads", "1"]
    try:
        p = subprocess.run(cmd, cwd=SCRATCH, env=env, stdout=subprocess.PIPE, stderr=subprocess.STDOUT, text=True,
                           errors="replace", timeout=timeout)
        return p.returncode, p.stdout, cmd, env["VERIF_REPLAY_BYTES"]
    except subprocess.TimeoutExpired as e:
        return -9, (e.stdout or "") + "\n[replay build/run timed out]", cmd, env["VERIF_REPLAY_BYTES"]


def _assess(rc, out):
    """True iff the replay test ran and failed on an obligation assertion (not on a precondition)."""
    if "REPLAY-PRECONDITION-FALSE" in out or "REPLAY-OUT-OF-VALUES" in out:
        return False
    if "running 1 test" not in out:
        return False
    return rc != 0 and ("panicked at" in out or "FAILED" in out)


def make_replay(prop, ob, res, tree_hash):
    os.makedirs(REPLAYS, exist_ok=True)
    path = os.path.join(REPLAYS, "%s-%s.json" % (prop, ob["id"]))
    doc = {
        "property": prop, "obligation": ob["id"], "kind": ob["kind"], "backend": ob["backend"],
        "harness": ob.get("harness"), "functions": ob["fns"], "pre": ob["pre"], "post": ob["post"],
        "bound": ob["bound"], "failed_checks": res.get("failed_checks"), "verifier_reason": res.get("reason"),
        "tree_hash": tree_hash, "concrete_values": None, "failing_input_found": False,
    }
    found = False
    if ob["backend"] != "kani":
        doc["verifier_output"] = res.get("output", "")[-6000:]
        doc["note"] = "Verus gives no counterexample; the failed obligation and the verifier output are recorded"
    else:
        t0 = time.time()
        cands, out = kani_run.concrete_playback(ob, ob.get("features", ""))
        doc["verifier_output"] = "\n".join(l for l in out.splitlines() if not l.startswith("warning"))[-6000:]
        vals = cands[0] if cands else None
        doc["concrete_values"] = vals
        doc["concrete_value_candidates"] = cands
        if vals is None:
            doc["note"] = "Kani produced no concrete values for this failure"
        elif "noreplay" in ob["flags"] or "stub" in ob["flags"] or not _replayable(ob):
            doc["note"] = "harness uses Kani-only devices (stubs / contracts); concrete values recorded, not re-executed"
        else:
            # one candidate per failed check and per satisfied cover: keep the first that fails on the real code
            for cand in cands[:8]:
                rc, tout, cmd, envbytes = _run_test(ob["harness"], cand)
                found = _assess(rc, tout)
                if found:
                    vals = cand
                    doc["concrete_values"] = cand
                    break
            doc["replay_cmd"] = "cd %s && RUSTFLAGS='--cfg salsa_verif_replay' VERIF_REPLAY_BYTES='%s' %s" % (
                SCRATCH, envbytes, " ".join(cmd))
            doc["replay_exit"] = rc
            doc["replay_output"] = tout[-3000:]
            doc["failing_input_found"] = found
        doc["playback_s"] = round(time.time() - t0, 1)
    dump_json(path, doc)
    return path, found


def _replayable(ob):
    try:
        txt = open(ob["file"]).read()
    except OSError:
        return False
    # the harness must also be a cfg(salsa_verif_replay) test
    i = txt.find("fn %s(" % ob["harness_fn"])
    head = txt[max(0, i - 400):i]
    return "cfg_attr(salsa_verif_replay, test)" in head.split("//@ob")[-1]


def run_replay_file(path):
    doc = load_json(path)
    if doc is None:
        print("cannot read", path)
        return 2
    vals = doc.get("concrete_values")
    if not vals or doc.get("backend") != "kani":
        print("no concrete input recorded in %s (obligation %s); verifier output follows" % (path, doc.get("obligation")))
        print(doc.get("verifier_output", "")[-2000:])
        return 1
    import instrument
    instrument.instrument()
    rc, out, cmd, _ = _run_test(doc["harness"], vals)
    print(out[-3000:])
    ok = _assess(rc, out)
    print("REPLAY %s obligation=%s" % ("REPRODUCED" if ok else "NOT-REPRODUCED", doc.get("obligation")))
    return 1 if ok else 0
