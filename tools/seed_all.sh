#!/bin/bash
# seed_all.sh [ids...]: run every kept seeded change through the checks (see tools/seed_run.py)
cd "$(dirname "$0")/.."
FAST=""; if [ "$1" = "--fast" ]; then FAST="--fast"; shift; fi
ids="$@"
[ -z "$ids" ] && ids=$(ls seeded)
for s in $ids; do VERIF_SEED_WORK=$PWD/.work-seed python3 tools/seed_run.py $FAST $s; done
