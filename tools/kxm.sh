#!/bin/bash
# kxm.sh <seed-id|patch-file> <harness-substr>...: run harnesses against a scratch copy of /repo with a patch applied
P=$1; shift
[ -f "$P" ] || P=/verif/seeded/$P/patch.diff
rm -rf /tmp/mut-repo; rsync -a --exclude /target --exclude .git /repo/ /tmp/mut-repo/
patch -p1 -s -d /tmp/mut-repo -i $P || exit 2
VERIF_REPO=/tmp/mut-repo VERIF_WORK=${VERIF_WORK:-/verif/.work-x} python3 $(dirname $0)/kx.py -j 6 -t ${T:-1200} "$@" 2>&1 | grep -v "^warning" | grep -E "^error|::verif|wall|FAIL" | cut -c1-260
rm -rf /tmp/mut-repo
