#!/bin/sh
# Offline setup: instrument a scratch copy of /repo and pre-build the Kani artefacts of the whole
# salsa crate (dependencies + harness codegen) into /verif/.work/target.  Verus needs no build.
set -e
cd "$(dirname "$0")"
export CARGO_NET_OFFLINE=true
mkdir -p .work evidence
python3 tools/instrument.py >/dev/null
( cd .work/salsa && CARGO_TARGET_DIR="$(pwd)/../target" cargo kani -Z function-contracts -Z stubbing -Z unstable-options --only-codegen >../setup-kani.log 2>&1 ) || {
  echo "setup: cargo kani codegen failed, see .work/setup-kani.log"; tail -30 .work/setup-kani.log; exit 1; }
python3 tools/catalog.py >/dev/null
echo "setup ok"
