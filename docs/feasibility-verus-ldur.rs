use vstd::prelude::*;
verus! {

pub enum Op { NewRev, Write(nat) }

pub open spec fn valid_op(op: Op) -> bool { match op { Op::NewRev => true, Op::Write(d) => d <= 2 } }
pub open spec fn valid(h: Seq<Op>) -> bool { forall|i: int| 0 <= i < h.len() ==> valid_op(#[trigger] h[i]) }

/// mirrors `Runtime::new_revision` / `Runtime::report_tracked_write` (reference functions)
pub open spec fn apply(s: Seq<nat>, op: Op) -> Seq<nat> {
    match op {
        Op::NewRev => s.update(0, s[0] + 1),
        Op::Write(d) => Seq::new(3, |i: int| if 1 <= i <= d { s[0] } else { s[i] }),
    }
}
pub open spec fn run(h: Seq<Op>) -> Seq<nat>
    decreases h.len()
{
    if h.len() == 0 { seq![1nat, 1nat, 1nat] } else { apply(run(h.drop_last()), h.last()) }
}
/// mirrors `Runtime::last_changed_revision`
pub open spec fn last_changed(s: Seq<nat>, d: nat) -> nat { if d < 3 { s[d as int] } else { 1 } }

/// revision in which the i-th operation takes effect
pub open spec fn rev_of(h: Seq<Op>, i: int) -> nat { run(h.subrange(0, i + 1))[0] }

proof fn lemma_shape(h: Seq<Op>)
    requires valid(h)
    ensures run(h).len() == 3, run(h)[0] >= run(h)[1] >= run(h)[2] >= 1,
    decreases h.len()
{
    if h.len() > 0 {
        assert(valid(h.drop_last())) by { assert forall|i: int| 0 <= i < h.drop_last().len() implies valid_op(#[trigger] h.drop_last()[i]) by { assert(h.drop_last()[i] == h[i]); } }
        lemma_shape(h.drop_last());
        assert(valid_op(h[h.len() - 1]));
    }
}

/// Durability shortcut soundness: if last_changed(d) <= v then no write of durability >= d took effect after v.
proof fn lemma_dur(h: Seq<Op>, d: nat, i: int, dw: nat)
    requires valid(h), d <= 2, 0 <= i < h.len(), h[i] == Op::Write(dw), dw >= d,
    ensures rev_of(h, i) <= last_changed(run(h), d)
    decreases h.len()
{
    let p = h.drop_last();
    assert(valid(p)) by { assert forall|k: int| 0 <= k < p.len() implies valid_op(#[trigger] p[k]) by { assert(p[k] == h[k]); } }
    lemma_shape(p);
    lemma_shape(h);
    assert(valid_op(h[h.len() - 1]));
    if i == h.len() - 1 {
        assert(h.subrange(0, i + 1) == h);
        // the write itself sets levels 1..=dw to the current revision; level 0 is the current revision
    } else {
        assert(p.subrange(0, i + 1) == h.subrange(0, i + 1));
        assert(p[i] == h[i]);
        lemma_dur(p, d, i, dw);
        // later operations never decrease any level
    }
}

} // verus!
fn main() {}
