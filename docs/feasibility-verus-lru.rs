// Verus feasibility experiment (design phase): `Lru::for_each_evicted` from
// src/function/eviction/lru.rs, executable statements verbatim; added lines are only
// requires/ensures, ghost statements, invariant/decreases. Trusted: the two external_body types.
use vstd::prelude::*;
use std::num::NonZeroUsize;
verus! {

#[derive(Clone, Copy, PartialEq, Eq)]
pub struct Id { pub bits: u64 }

#[verifier::external_body]
#[verifier::reject_recursive_types(K)]
pub struct FxLinkedHashSet<K> { inner: std::collections::VecDeque<K> }

impl<K> FxLinkedHashSet<K> {
    pub uninterp spec fn view(&self) -> Seq<K>;

    #[verifier::external_body]
    pub fn len(&self) -> (r: usize)
        ensures r == self@.len()
    { unimplemented!() }

    #[verifier::external_body]
    pub fn pop_front(&mut self) -> (r: Option<K>)
        ensures
            old(self)@.len() == 0 ==> r.is_none() && final(self)@ == old(self)@,
            old(self)@.len() > 0 ==> r == Some(old(self)@[0]) && final(self)@ == old(self)@.subrange(1, old(self)@.len() as int),
    { unimplemented!() }

    #[verifier::external_body]
    pub fn clear(&mut self)
        ensures final(self)@.len() == 0
    { unimplemented!() }
}

#[verifier::external_body]
#[verifier::reject_recursive_types(T)]
pub struct Mutex<T> { inner: std::cell::RefCell<T> }
impl<T> Mutex<T> {
    pub uninterp spec fn view(&self) -> T;
    #[verifier::external_body]
    pub fn get_mut(&mut self) -> (r: &mut T)
        ensures *r == old(self)@, *final(r) == final(self)@
    { unimplemented!() }
}

pub struct Lru {
    capacity: Option<NonZeroUsize>,
    set: Mutex<FxLinkedHashSet<Id>>,
}

impl Lru {
    fn for_each_evicted(&mut self, mut cb: impl FnMut(Id))
        requires forall|a: Id| cb.requires((a,)),
        ensures
            final(self).capacity == old(self).capacity,
            old(self).capacity.is_none() ==> final(self).set@@ == old(self).set@@,
            old(self).capacity.is_some() ==> {
                let cap = old(self).capacity.unwrap().get() as int;
                let n = old(self).set@@.len() as int;
                let k = if n > cap { n - cap } else { 0 };
                &&& final(self).set@@ == old(self).set@@.subrange(k, n)
                &&& final(self).set@@.len() <= cap
            },
    {
        let Some(cap) = self.capacity else {
            return;
        };
        let set = self.set.get_mut();
        let ghost orig = set@;
        let ghost mut k: int = 0;
        while set.len() > cap.get()
            invariant
                0 <= k <= orig.len(),
                set@ == orig.subrange(k, orig.len() as int),
                k > 0 ==> orig.len() - k >= cap.get(),
                forall|a: Id| cb.requires((a,)),
            decreases set@.len()
        {
            if let Some(id) = set.pop_front() {
                cb(id);
            }
            proof { k = k + 1; }
        }
    }
}

} // verus!
fn main() {}
