// G-EXEC-2/3 (third session): `execute` with the REAL user-function runner (`execute_query`: push frame, seed from the
// old memo, run a user function that reports one or two tracked reads and possibly an untracked one) and the REAL
// frame pop (`ActiveQueryGuard::pop` -> `QueryStack::pop_into_revisions` -> `QueryCompletion::finish`), with only
// insert_memo / diff_outputs / claim release stubbed.  With the query stack in a typed static cell (DESIGN 14.1)
// symbolic execution finishes, but the SAT back end does not: one read / untracked read: CBMC error after 124-307 s
// (16 GB); two reads: no result in 20-30 min, with the read pattern symbolic or constant.  The cost is in
// `finish` (building the origin's edge block; the K-ORIGIN-* obligations alone take 50-200 s each).  Kept for the record;
// G-EXEC-1 (stubbed runner and pop) stays the obligation on `execute`.
// ---------------------------------------------------------------------------------------------
// G-EXEC-2: `execute` with the **real** user-function runner and the **real** frame pop (DESIGN 14.4)
// ---------------------------------------------------------------------------------------------
/// What the harness's user function does when `execute_query` runs it, and what it observed.
pub(crate) struct UserFn {
    pub calls: u32,
    /// the innermost executing query, as seen from inside the user function, was the key being executed
    pub saw_own_frame: bool,
    pub value: u32,
    /// (durability index, changed_at) of the first dependency it reads
    pub read1: (u8, usize),
    pub second: bool,
    pub read2: (u8, usize),
    pub untracked: bool,
}
pub(crate) static mut USER: UserFn = UserFn { calls: 0, saw_own_frame: false, value: 0, read1: (0, 1), second: false, read2: (0, 1), untracked: false };
pub(crate) const USER_KEY: (u32, u32) = (2, 7);

pub(crate) struct CUser;
// SAFETY: `u32` output.
unsafe impl Configuration for CUser {
    const DEBUG_NAME: &'static str = "user";
    const LOCATION: crate::ingredient::Location = crate::ingredient::Location { file: "", line: 0 };
    const PERSIST: bool = false;
    type DbView = HDb;
    type SalsaStruct<'db> = GKey;
    type Input<'db> = GKey;
    type Output<'db> = u32;
    type Eviction = NoopEviction;
    const CYCLE_STRATEGY: CycleRecoveryStrategy = CycleRecoveryStrategy::Panic;
    fn values_equal<'db>(a: &u32, b: &u32) -> bool {
        a == b
    }
    fn id_to_input(_: &Zalsa, key: Id) -> GKey {
        GKey(key)
    }
    /// The user function: reads one or two tracked dependencies (what `fetch` of another ingredient reports),
    /// possibly untracked state, and returns a value.
    fn execute<'db>(db: &'db HDb, input: GKey) -> u32 {
        let (z, l) = db.zalsas();
        // SAFETY: single-threaded harness
        unsafe {
            USER.calls += 1;
            USER.saw_own_frame = input.0 == Id::from_index(USER_KEY.1) && l.active_query().is_some_and(|(k, _)| k == vk::key(USER_KEY.0, USER_KEY.1));
            l.report_tracked_read_simple(vk::key(5, 1), vk::durability_of(USER.read1.0), Revision::from(USER.read1.1));
            if USER.second {
                l.report_tracked_read_simple(vk::key(5, 2), vk::durability_of(USER.read2.0), Revision::from(USER.read2.1));
            }
            if USER.untracked {
                l.report_untracked_read(z.current_revision());
            }
            USER.value
        }
    }
    fn cycle_initial<'db>(_: &'db HDb, _: Id, _: GKey) -> u32 {
        unreachable!()
    }
    fn recover_from_cycle<'db>(_: &'db HDb, _: &Cycle, _: &u32, v: u32, _: GKey) -> u32 {
        v
    }
    fn serialize<S>(_: &u32, _: S) -> Result<S::Ok, S::Error>
    where
        S: plumbing::serde::Serializer,
    {
        unimplemented!()
    }
    fn deserialize<'de, D>(_: D) -> Result<u32, D::Error>
    where
        D: plumbing::serde::Deserializer<'de>,
    {
        unimplemented!()
    }
}

fn execute_runs_the_user_function(has_old: bool, second: bool, untracked: bool) {
    let mut z = crate::zalsa::verif::bare_zalsa();
    let cur = vk::any_revision();
    crate::runtime::verif::set_revs(z.runtime_mut(), [cur, cur, cur]);
    let db = HDb { zalsa: z, local: crate::zalsa_local::verif::local_static() };
    let ing = IngredientImpl::<CUser>::new(IngredientIndex::new(USER_KEY.0), crate::memo_ingredient_indices::verif::singleton(0), 0);
    // SAFETY: small index
    let id = unsafe { Id::from_index(USER_KEY.1) };
    let (z, l) = db.zalsas();
    // the user function's behaviour
    let (d1, d2) = (vk::any_durability(), vk::any_durability());
    let (c1, c2) = (vk::any_revision(), vk::any_revision());
    vk::assume(c1 <= cur && c2 <= cur);
    let nv: u32 = vk::any();
    // SAFETY: single-threaded harness
    unsafe {
        USER = UserFn { calls: 0, saw_own_frame: false, value: nv, read1: (d1.index() as u8, c1.as_usize()), second, read2: (d2.index() as u8, c2.as_usize()), untracked };
    }
    // what the frame must report for these reads (K-AQ-1 / K-AQ-3: minimum durability, maximum changed_at;
    // an untracked read forces the lowest durability and "changed now")
    let mut nd = d1;
    let mut nc = c1;
    if second {
        nd = nd.min(d2);
        nc = nc.max(c2);
    }
    if untracked {
        nd = Durability::MIN;
        nc = cur;
    }
    // the old memo (final, with a value)
    let (va, ca) = (vk::any_revision(), vk::any_revision());
    vk::assume(ca <= va && va < cur);
    let od = vk::any_durability();
    let ov: u32 = vk::any();
    let backdate = has_old && ov == nv && nd >= od;
    // a function of its inputs cannot return the old value with *older* inputs than the old execution saw (salsa
    // reports that as a query bug, by a debug-build panic)
    vk::assume(!backdate || ca <= nc);
    let old: &'static Memo<CUser> = Box::leak(Box::new(Memo::<CUser>::new(Some(ov), va, crate::zalsa_local::verif::revs(od, ca, true, crate::zalsa_local::verif::empty_derived()))));
    let guard = crate::function::sync::verif::fake_guard(z, l, IngredientIndex::new(USER_KEY.0), id);
    let r = ing.execute(&db, guard, if has_old { Some(old) } else { None });
    // SAFETY: single-threaded harness
    let (ins, diffed, releases, calls, own) = unsafe { (INS, DIFFED, crate::function::sync::verif::RELEASES, USER.calls, USER.saw_own_frame) };
    assert!(r.is_some());
    assert!(calls == 1 && own);
    assert!(ins.calls == 1 && releases == 1);
    assert!(ins.value == Some(nv));
    assert!(ins.verified_at == cur.as_usize());
    assert!(!ins.provisional);
    assert!(ins.durability == nd.index() as u8);
    assert!(ins.changed_at == if backdate { ca.as_usize() } else { nc.as_usize() });
    assert!(ins.origin_kind == if untracked { 1 } else { 0 });
    assert!(diffed == if has_old { &old.header as *const MemoHeader as usize } else { 0 });
    // the frame is gone: the caller's frame (here: none) is the innermost one again
    assert!(l.active_query().is_none());
    vcover!(backdate, "backdating reachable");
    vcover!(!second || untracked || (nd == d2 && nc == c1 && d1 != d2 && c1 != c2), "min / max taken from different reads");
    std::mem::forget(ing);
    std::mem::forget(db);
}

//@ob id=G-EXEC-2 kind=C props=C01,C02,C03,C04 timeout=1800 fn=IngredientImpl::execute,IngredientImpl::execute_query,ZalsaLocal::push_query,ActiveQueryGuard::pop,QueryStack::pop_into_revisions,ActiveQuery::prepare_completion,QueryCompletion::finish,ZalsaLocal::report_tracked_read_simple,ZalsaLocal::report_untracked_read,IngredientImpl::backdate_if_appropriate flags=stubs,noreplay
//@ pre: a claimed key of a function without cycle handling, first execution (no old memo); the **real** user-function runner and the **real** query stack: the user function reads one or two dependencies with any durabilities / changed_at <= current, possibly untracked state, and returns any value
//@ post: the user function runs exactly once, inside a frame for the key being executed; exactly one memo is stored, final, verified now, holding the returned value, whose stamp is **what the reads determine**: durability = the minimum over the reads, changed_at = the maximum (lowest durability and "changed now" after an untracked read, and then recorded as untracked so that it re-executes in every later revision, C04); afterwards the frame is gone and the claim released once
#[cfg(kani)]
#[kani::proof]
#[kani::unwind(5)]
#[kani::stub(crate::sync::max_parallelism, crate::verif_support::one_core)]
#[kani::stub(crate::function::sync::ClaimGuard::drop_impl, crate::function::sync::ClaimGuard::verif_release)]
#[kani::stub(crate::function::IngredientImpl::execute_maybe_iterate, stub_no_iterate)]
#[kani::stub(crate::function::IngredientImpl::insert_memo, stub_insert_memo)]
#[kani::stub(crate::function::memo::MemoHeader::diff_outputs, crate::function::memo::MemoHeader::verif_diff_outputs)]
fn g_exec_2_execute_runs_the_user_function_first_time() {
    execute_runs_the_user_function(false, true, false)
}

//@ob id=G-EXEC-3 kind=C props=C01,C02,C03,C04,C06 timeout=1800 fn=IngredientImpl::execute,IngredientImpl::execute_query,MemoHeader::seed_active_query,ZalsaLocal::push_query,ActiveQueryGuard::pop,QueryStack::pop_into_revisions,IngredientImpl::backdate_if_appropriate,MemoHeader::can_backdate,MemoHeader::backdate flags=stubs,noreplay
//@ pre: as G-EXEC-2 with an old memo (final, with a value, any durability, changed_at <= verified_at < current; its changed_at not later than what the new reads give when the value is unchanged - salsa panics on that in debug builds as a query bug)
//@ post: as G-EXEC-2, and changed_at is the **old memo's** iff the value is equal and the new result is not less durable (C03), the reads' maximum otherwise (C01); the old memo's header goes to diff_outputs
#[cfg(kani)]
#[kani::proof]
#[kani::unwind(5)]
#[kani::stub(crate::sync::max_parallelism, crate::verif_support::one_core)]
#[kani::stub(crate::function::sync::ClaimGuard::drop_impl, crate::function::sync::ClaimGuard::verif_release)]
#[kani::stub(crate::function::IngredientImpl::execute_maybe_iterate, stub_no_iterate)]
#[kani::stub(crate::function::IngredientImpl::insert_memo, stub_insert_memo)]
#[kani::stub(crate::function::memo::MemoHeader::diff_outputs, crate::function::memo::MemoHeader::verif_diff_outputs)]
fn g_exec_3_execute_runs_the_user_function_again() {
    execute_runs_the_user_function(true, true, false)
}

#[cfg(kani)]
#[kani::proof]
#[kani::unwind(5)]
#[kani::stub(crate::sync::max_parallelism, crate::verif_support::one_core)]
#[kani::stub(crate::function::sync::ClaimGuard::drop_impl, crate::function::sync::ClaimGuard::verif_release)]
#[kani::stub(crate::function::IngredientImpl::execute_maybe_iterate, stub_no_iterate)]
#[kani::stub(crate::function::IngredientImpl::insert_memo, stub_insert_memo)]
#[kani::stub(crate::function::memo::MemoHeader::diff_outputs, crate::function::memo::MemoHeader::verif_diff_outputs)]
fn g_exec_2x_one_read() {
    execute_runs_the_user_function(false, false, false)
}
#[cfg(kani)]
#[kani::proof]
#[kani::unwind(5)]
#[kani::stub(crate::sync::max_parallelism, crate::verif_support::one_core)]
#[kani::stub(crate::function::sync::ClaimGuard::drop_impl, crate::function::sync::ClaimGuard::verif_release)]
#[kani::stub(crate::function::IngredientImpl::execute_maybe_iterate, stub_no_iterate)]
#[kani::stub(crate::function::IngredientImpl::insert_memo, stub_insert_memo)]
#[kani::stub(crate::function::memo::MemoHeader::diff_outputs, crate::function::memo::MemoHeader::verif_diff_outputs)]
fn g_exec_2u_untracked() {
    execute_runs_the_user_function(false, false, true)
}
