//! `crate::verif_prog` — small **real salsa programs**, written with the public macros
//! (`#[salsa::input]`, `#[salsa::tracked]`), run symbolically by Kani on a database whose
//! storage is a bare `Zalsa` built by the real `Zalsa::new` from the programs' real jars.
//! Nothing here is a hand copy of macro output: the `Configuration` impls, `update_fields`,
//! getters, setters and the tracked-function glue are what `salsa-macros` / `salsa-macro-rules`
//! generate (`extern crate self as salsa;` is injected into the scratch copy's lib.rs so that the
//! `::salsa::` paths of the expansions resolve inside the crate itself).
#![allow(warnings, clippy::all)]
use crate as salsa;
use crate::verif_support::{self as vk, vcover};
use crate::zalsa::{ErasedJar, Zalsa, ZalsaDatabase};
use crate::zalsa_local::ZalsaLocal;
use crate::{Database, Durability, Setter};

/// A database handle over a `Zalsa` without `Storage` (no clones, no cancellation of other handles).
pub(crate) struct PDb {
    zalsa: Zalsa,
    local: ZalsaLocal,
}
// SAFETY: single-threaded harness.
unsafe impl Send for PDb {}
// SAFETY: `zalsa`/`zalsa_local` always return the same objects.
unsafe impl ZalsaDatabase for PDb {
    fn zalsa(&self) -> &Zalsa {
        &self.zalsa
    }
    /// `Storage::cancel_others` without other handles: bump the cancellation count (new revision on overflow).
    fn zalsa_mut(&mut self) -> &mut Zalsa {
        let overflow = self.zalsa.runtime_mut().bump_cancellation_count();
        if overflow {
            self.zalsa.new_revision();
        }
        &mut self.zalsa
    }
    fn zalsa_local(&self) -> &ZalsaLocal {
        &self.local
    }
}
impl Database for PDb {}

pub(crate) static mut RUNS_F: u32 = 0;
pub(crate) static mut RUNS_G: u32 = 0;

#[salsa::input]
pub(crate) struct In {
    pub a: u32,
    pub b: u32,
}

#[salsa::tracked]
pub(crate) fn f(db: &dyn Database, i: In) -> u32 {
    // SAFETY: single-threaded harness
    unsafe { RUNS_F += 1 };
    *i.a(db)
}

pub(crate) fn new_db(jars: Vec<ErasedJar>) -> PDb {
    PDb { zalsa: Zalsa::new::<PDb>(None, jars), local: ZalsaLocal::new() }
}

//@off(cbmc-does-not-finish) id=K-PROG-0 kind=B bound=history=new;call;call props=C01,C03 timeout=3000 fn=IngredientImpl::fetch,setup_input_struct,setup_tracked_fn
//@ pre: program `#[salsa::input] In{a,b}`, `#[salsa::tracked] f(i) = i.a`; any field values
//@ post: f(i) == a, computed once for two calls in the same revision
#[cfg_attr(kani, kani::proof)]
#[cfg_attr(kani, kani::unwind(8))]
#[cfg_attr(kani, kani::stub(crate::sync::max_parallelism, crate::verif_support::one_core))]
#[cfg_attr(salsa_verif_replay, test)]
fn k_prog_0_call_twice() {
    let db = new_db(vec![ErasedJar::erase::<In>(), ErasedJar::erase::<f>()]);
    let (a, b): (u32, u32) = (vk::any(), vk::any());
    let i = In::new(&db, a, b);
    assert!(*f(&db, i) == a);
    assert!(*f(&db, i) == a);
    // SAFETY: single-threaded harness
    assert!(unsafe { RUNS_F } == 1);
    vcover!();
    std::mem::forget(db);
}
