
// ---------------------------------------------------------------------------------------------
// Sequential stand-ins for the cross-thread half of the runtime (used with `#[kani::stub]` by the
// harnesses that run `SyncTable::try_claim` / `ClaimGuard::drop`).  In a single-threaded harness
// no other thread can hold a claim, so the only feasible outcome of `Runtime::block` is the
// same-thread cycle of its first four lines; the wait graph (`DependencyGraph`, real `FxHashMap`s,
// beyond CBMC - DESIGN.md 3) is cut off, and reaching it is a harness failure, not a pass.
// ---------------------------------------------------------------------------------------------
impl Runtime {
    pub(crate) fn verif_block_seq<'a>(
        &'a self,
        _database_key: DatabaseKeyIndex,
        other_id: ThreadId,
        _query_mutex_guard: SyncGuard<'a>,
    ) -> BlockResult<'a> {
        if thread::current().id() == other_id {
            return BlockResult::Cycle;
        }
        panic!("verif: sequential harness would block on another thread")
    }
    pub(crate) fn verif_unblock_seq(&self, _database_key: DatabaseKeyIndex, _wait_result: WaitResult) {
        panic!("verif: sequential harness has no waiters to unblock")
    }
    pub(crate) fn verif_undo_transfer_seq(&self, _query: DatabaseKeyIndex) {
        panic!("verif: sequential harness has no transferred locks")
    }
}
