// Third session (2026-09-23): retried with (a) the shards moved from their boxed slice to the harness's stack
// (`std::mem::replace(&mut ing.shards, Box::from_raw(&mut [CachePadded<Mutex<IngredientShard>>; 4]))`) and (b) an
// inline-array model of the key map (`[Option<ValueKey>; 4]` + len) so that neither the table length nor the
// stored pointer is read back from an untyped heap object (the trick that brought `Storage` within reach,
// K-ST-1/2).  Symex then takes 12 s (227 k steps), but the SAT back end still runs out of memory (16 GB): the
// *value* lives in a table page on the heap, so `value_eq(fields, key)` is not decided during symex and the
// slot-reuse path (find_reusable_slot, intrusive-list surgery, clear_memos) is encoded as well.  Note also that
// stubbing `intern_id_cold` does not cut that path: `intern_id` calls `find_reusable_slot` itself.
// K-INT-6 (fast path of intern_id with the shard's key map modelled and the slow paths stubbed): symex finishes,
// CBMC's SAT back end runs out of memory (20 GB) in propositional reduction: the found/not-found branch of the
// key-map lookup is not decided during symex (vector length read back through Box<[CachePadded<Mutex<..>>]>),
// so the slot-reuse path with its intrusive-list surgery is encoded as well.  Needed patch: P4-int
// (`#[cfg(kani)] use crate::verif_collections::hashbrown;` in src/interned.rs).
// ---------------------------------------------------------------------------------------------
// `intern_id`, fast path: the value is already interned
// ---------------------------------------------------------------------------------------------
/// The slow paths of `intern_id` (fresh slot / slot reuse) are not what K-INT-6 is about; reaching them there is
/// a failure, not a pass.
impl<C: Configuration> IngredientImpl<C> {
    #[allow(clippy::too_many_arguments)]
    pub(crate) fn verif_intern_cold<'db, Key>(
        &'db self,
        _key: Key,
        _zalsa: &Zalsa,
        _zalsa_local: &ZalsaLocal,
        _assemble: impl FnOnce(Id, Key) -> C::Fields<'db>,
        _shard: &mut IngredientShard,
        _shard_index: usize,
        _hash: u64,
    ) -> crate::Id
    where
        Key: Hash,
        C::Fields<'db>: HashEqLike<Key>,
    {
        panic!("verif: slow path of intern_id reached for data that is already interned")
    }
}

/// Register an allocated value the way `insert_value` does: in its shard's key map, and in the LRU list iff
/// it is reusable.
fn register(ing: &IngredientImpl<KI>, z: &Zalsa, id: Id, in_lru: bool) {
    let value = z.table().get::<Value<KI>>(id);
    // SAFETY: single-threaded harness
    let hash = unsafe { ing.value_hash(value) };
    let shard_index = ing.shard(hash);
    assert!(shard_index == value.shard as usize);
    let mut shard = ing.shards[shard_index].lock();
    // SAFETY: single-threaded harness
    let hasher = |v: &ValueKey| unsafe { ing.value_hash(v.value::<KI>()) };
    shard.key_map.insert_unique(hash, ValueKey::new(value), hasher);
    if in_lru {
        // SAFETY: the value lives as long as the table
        unsafe { shard.lru.push_front(UnsafeRef::from_raw(LruEntry::ptr_from_value(value))) };
    }
}

#[cfg(kani)]
fn intern_existing_value(in_query: bool, d0: Durability) {
    let mut z = crate::zalsa::verif::bare_zalsa();
    z.runtime_mut().new_revision();
    z.runtime_mut().new_revision();
    let cur = z.current_revision();
    let ing = IngredientImpl::<KI>::new(IngredientIndex::new(0));
    let lia = match vk::any::<u8>() % 3 {
        0 => Revision::start(),
        1 => Revision::start().next(),
        _ => cur,
    };
    let id0 = alloc_value(&z, &ing, vk::any(), lia, d0);
    register(&ing, &z, id0, is_reusable::<KI>(d0));
    let l = ZalsaLocal::new();
    let ds = vk::any_durability();
    let frame = l.push_query(vk::key(7, 1));
    if in_query {
        crate::zalsa_local::verif::set_top_stamp(&l, ds, Revision::start());
    }
    let value = z.table().get::<Value<KI>>(id0);
    // SAFETY: single-threaded harness
    let id_before = unsafe { (*value.lru.metadata.get()).id };
    if !in_query {
        // outside any query: forget the frame's stack entry by using a fresh local state
    }
    let outside = ZalsaLocal::new();
    let got = ing.intern_id(&z, if in_query { &l } else { &outside }, (5u32,), |_, k| k);
    std::mem::forget(outside);
    assert!(got == id_before);
    // SAFETY: single-threaded harness
    let (meta, d1) = unsafe { (*value.lru.metadata.get(), *value.durability.get()) };
    assert!(meta.id == id_before);
    assert!(meta.last_interned_at == cur);
    assert!(d1 == if in_query { std::cmp::max(d0, ds) } else { d0 });
    assert!(value.lru.link.is_linked() == is_reusable::<KI>(d1));
    vcover!(!in_query || !is_reusable::<KI>(d0) || (!is_reusable::<KI>(d1) && lia < cur), "durability raised in a later revision");
    vcover!();
    std::mem::forget(frame);
    std::mem::forget(l);
    std::mem::forget(z);
    std::mem::forget(ing);
}

//@ob id=K-INT-6 kind=C props=C09,C08,C07 timeout=1800 fn=IngredientImpl::intern_id,report_tracked_read_if_reusable,is_reusable flags=stub
//@ pre: revision 3; a value interned earlier (last interned at revision 1, 2 or 3) by queries of maximal durability d0 (any), linked into its shard's LRU list iff reusable (collection enabled and d0 == LOW); the value was so far only interned by LOW queries (it is linked in the LRU list); now an executing query of any durability ds interns equal data again (initial durability and caller kind are harness constants: symbolic ones exhaust CBMC's memory)
//@ post: the **same id** comes back (identity kept, no assembling); the value is marked as interned in the current revision; its durability becomes max(d0, ds) (unchanged outside a query); and afterwards it is linked in the LRU list - i.e. a candidate for reclamation - **iff it is still reusable** (only ever interned by LOW queries): a value that a more durable query interns in a later revision leaves the list for good
#[cfg(kani)]
#[kani::proof]
#[kani::unwind(6)]
#[kani::stub(crate::sync::max_parallelism, one)]
#[kani::stub(crate::interned::IngredientImpl::intern_id_cold, crate::interned::IngredientImpl::verif_intern_cold)]
fn k_int_6_low_value_interned_by_a_query() {
    intern_existing_value(true, Durability::LOW)
}

//@ob id=K-INT-6h kind=C props=C09,C08 timeout=1800 fn=IngredientImpl::intern_id flags=stub
//@ pre: as K-INT-6 for a value that a HIGH query interned before (not in the LRU list)
//@ post: same id, refreshed, durability stays >= HIGH, still not a reclamation candidate
#[cfg(kani)]
#[kani::proof]
#[kani::unwind(6)]
#[kani::stub(crate::sync::max_parallelism, one)]
#[kani::stub(crate::interned::IngredientImpl::intern_id_cold, crate::interned::IngredientImpl::verif_intern_cold)]
fn k_int_6h_durable_value_interned_by_a_query() {
    intern_existing_value(true, Durability::HIGH)
}

//@ob id=K-INT-6o kind=C props=C09,C08 timeout=1800 fn=IngredientImpl::intern_id flags=stub
//@ pre: as K-INT-6 but the data is interned again from outside any query
//@ post: same id, refreshed, durability unchanged, LRU membership unchanged
#[cfg(kani)]
#[kani::proof]
#[kani::unwind(6)]
#[kani::stub(crate::sync::max_parallelism, one)]
#[kani::stub(crate::interned::IngredientImpl::intern_id_cold, crate::interned::IngredientImpl::verif_intern_cold)]
fn k_int_6o_low_value_interned_outside_queries() {
    intern_existing_value(false, Durability::LOW)
}
