
// ---- stubs stating the claim table's contract for the modular harnesses of `function.verif.rs` ----
pub(crate) static mut CLAIMS: u32 = 0;
pub(crate) static mut RELEASES: u32 = 0;
/// 0: the key is free (claim granted). 1: the key is being executed by this very thread (cycle).
pub(crate) static mut CLAIM_MODE: u8 = 0;
pub(crate) fn stub_try_claim<'me>(this: &'me SyncTable, zalsa: &'me Zalsa, zalsa_local: &'me ZalsaLocal, key_index: Id, _reentrant: Reentrancy) -> ClaimResult<'me> {
    // SAFETY: single-threaded harness
    unsafe {
        if CLAIM_MODE == 1 {
            return ClaimResult::Cycle { inner: false };
        }
        CLAIMS += 1;
    }
    ClaimResult::Claimed(fake_guard(zalsa, zalsa_local, this.ingredient, key_index))
}
impl<'me> ClaimGuard<'me> {
    /// Stand-in for `drop_impl`: counts the release; nobody waits in a sequential harness.
    pub(crate) fn verif_release(&mut self) -> bool {
        // SAFETY: single-threaded harness
        unsafe { RELEASES += 1 };
        false
    }
}
