//! Child module of `crate::function`: the *generic function ingredient* (`fetch` / `refresh_memo` /
//! `fetch_hot` / `fetch_cold` / `execute` / `execute_query` / `insert_memo` / `maybe_changed_after`)
//! instantiated with a small harness `Configuration` and run end to end on a bare `Zalsa` that holds
//! a **real input ingredient** (two fields, real `Table` page, real per-slot memo table), its two
//! **real field ingredients**, and one or two **real function ingredients**.
//!
//! These are bounded obligations (kind B): the *history* is fixed-length (one request, one symbolic
//! write-or-not step, one more request), but every value in it is symbolic over its full domain
//! (field values, revisions, durabilities, which field is written, with which new durability, the
//! runtime's revision vector).  They are what ties the per-function contracts (K-MCA-*, K-AQ-*,
//! K-BD-*, K-IN-*) together through the real generic engine.
use super::*;
use crate::input::verif::{KIStruct, KI};
use crate::verif_support::{self as vk, vcover};
use crate::zalsa::ZalsaDatabase;
use crate::zalsa_local::ZalsaLocal;
use crate::{Database, Durability};

/// A database handle over a bare `Zalsa`: no `Storage`, no clones, no `Views` registry.
pub(crate) struct HDb {
    pub zalsa: Zalsa,
    pub local: ZalsaLocal,
}
// SAFETY: single-threaded harness.
unsafe impl Send for HDb {}
// SAFETY: `zalsa`/`zalsa_local` always return the same objects.
unsafe impl ZalsaDatabase for HDb {
    fn zalsa(&self) -> &Zalsa {
        &self.zalsa
    }
    fn zalsa_mut(&mut self) -> &mut Zalsa {
        &mut self.zalsa
    }
    fn zalsa_local(&self) -> &ZalsaLocal {
        &self.local
    }
}
impl Database for HDb {}

impl crate::salsa_struct::SalsaStructInDb for KIStruct {
    type MemoIngredientMap = crate::memo_ingredient_indices::MemoIngredientSingletonIndex;
    const LEAF_TYPE_IDS: &'static [typeid::ConstTypeId] = &[typeid::ConstTypeId::of::<KIStruct>()];
    fn lookup_ingredient_index(_: &Zalsa) -> crate::memo_ingredient_indices::IngredientIndices {
        IngredientIndex::new(IN).into()
    }
    fn entries(_: &Zalsa) -> impl Iterator<Item = DatabaseKeyIndex> + '_ {
        std::iter::empty()
    }
    fn cast(id: Id, _: std::any::TypeId) -> Option<Self> {
        Some(crate::plumbing::FromId::from_id(id))
    }
    // shape copied from `setup_input_struct!`
    unsafe fn memo_table(zalsa: &Zalsa, id: Id, current_revision: Revision) -> crate::table::memo::MemoTableWithTypes<'_> {
        // SAFETY: guaranteed by caller
        unsafe { zalsa.table().memos::<crate::input::Value<KI>>(id, current_revision) }
    }
}

/// Ingredient indices of the harness database.
pub(crate) const IN: u32 = 0; // input struct; its fields are IN+1, IN+2
pub(crate) const F: u32 = 3; // function reading field 0 (or field `WHICH`)
pub(crate) const G: u32 = 4; // function calling F

/// Harness-visible execution counters and knobs ("user code" state).
pub(crate) static mut EXEC_F: u32 = 0;
pub(crate) static mut EXEC_G: u32 = 0;
/// 0: F reads field 0.  1: F reads field 0 and reports an untracked read.  2: F returns (field0 & 1) (for backdating).
pub(crate) static mut F_MODE: u8 = 0;

fn input_ing(z: &Zalsa) -> &crate::input::IngredientImpl<KI> {
    z.lookup_ingredient(IngredientIndex::new(IN)).assert_type::<crate::input::IngredientImpl<KI>>()
}
fn f_ing(z: &Zalsa) -> &IngredientImpl<CF> {
    z.lookup_ingredient(IngredientIndex::new(F)).assert_type::<IngredientImpl<CF>>()
}
fn g_ing(z: &Zalsa) -> &IngredientImpl<CG> {
    z.lookup_ingredient(IngredientIndex::new(G)).assert_type::<IngredientImpl<CG>>()
}

pub(crate) struct CF;
// SAFETY: `u32` output.
unsafe impl Configuration for CF {
    const DEBUG_NAME: &'static str = "f";
    const LOCATION: crate::ingredient::Location = crate::ingredient::Location { file: "", line: 0 };
    const PERSIST: bool = false;
    type DbView = HDb;
    type SalsaStruct<'db> = KIStruct;
    type Input<'db> = KIStruct;
    type Output<'db> = u32;
    type Eviction = NoopEviction;
    const CYCLE_STRATEGY: CycleRecoveryStrategy = CycleRecoveryStrategy::Panic;
    fn values_equal<'db>(a: &u32, b: &u32) -> bool {
        a == b
    }
    fn id_to_input(_: &Zalsa, key: Id) -> KIStruct {
        crate::plumbing::FromId::from_id(key)
    }
    fn execute<'db>(db: &'db HDb, input: KIStruct) -> u32 {
        // SAFETY: single-threaded harness
        unsafe { EXEC_F += 1 };
        let (z, l) = db.zalsas();
        let v = input_ing(z).field(z, l, input, 0).0;
        // SAFETY: single-threaded harness
        match unsafe { F_MODE } {
            1 => {
                db.report_untracked_read();
                v
            }
            2 => v & 1,
            _ => v,
        }
    }
    fn cycle_initial<'db>(_: &'db HDb, _: Id, _: KIStruct) -> u32 {
        unreachable!()
    }
    fn recover_from_cycle<'db>(_: &'db HDb, _: &Cycle, _: &u32, v: u32, _: KIStruct) -> u32 {
        v
    }
    fn serialize<S>(_: &u32, _: S) -> Result<S::Ok, S::Error>
    where
        S: plumbing::serde::Serializer,
    {
        unimplemented!()
    }
    fn deserialize<'de, D>(_: D) -> Result<u32, D::Error>
    where
        D: plumbing::serde::Deserializer<'de>,
    {
        unimplemented!()
    }
}

pub(crate) struct CG;
// SAFETY: `u32` output.
unsafe impl Configuration for CG {
    const DEBUG_NAME: &'static str = "g";
    const LOCATION: crate::ingredient::Location = crate::ingredient::Location { file: "", line: 0 };
    const PERSIST: bool = false;
    type DbView = HDb;
    type SalsaStruct<'db> = KIStruct;
    type Input<'db> = KIStruct;
    type Output<'db> = u32;
    type Eviction = NoopEviction;
    const CYCLE_STRATEGY: CycleRecoveryStrategy = CycleRecoveryStrategy::Panic;
    fn values_equal<'db>(a: &u32, b: &u32) -> bool {
        a == b
    }
    fn id_to_input(_: &Zalsa, key: Id) -> KIStruct {
        crate::plumbing::FromId::from_id(key)
    }
    fn execute<'db>(db: &'db HDb, input: KIStruct) -> u32 {
        // SAFETY: single-threaded harness
        unsafe { EXEC_G += 1 };
        let (z, l) = db.zalsas();
        let v = *f_ing(z).fetch(db, z, l, crate::plumbing::AsId::as_id(&input));
        v ^ 0x5555
    }
    fn cycle_initial<'db>(_: &'db HDb, _: Id, _: KIStruct) -> u32 {
        unreachable!()
    }
    fn recover_from_cycle<'db>(_: &'db HDb, _: &Cycle, _: &u32, v: u32, _: KIStruct) -> u32 {
        v
    }
    fn serialize<S>(_: &u32, _: S) -> Result<S::Ok, S::Error>
    where
        S: plumbing::serde::Serializer,
    {
        unimplemented!()
    }
    fn deserialize<'de, D>(_: D) -> Result<u32, D::Error>
    where
        D: plumbing::serde::Deserializer<'de>,
    {
        unimplemented!()
    }
}

/// Builds the harness database: ingredients are registered the way `Zalsa::insert_jar` + the macros'
/// `create_ingredients` do it (input struct, its field ingredients, then the function ingredients with
/// their memo slot types registered on the struct ingredient).
pub(crate) fn harness_db(with_g: bool) -> HDb {
    let mut z = crate::zalsa::verif::bare_zalsa();
    let input = crate::input::IngredientImpl::<KI>::new(IngredientIndex::new(IN));
    z.verif_push(Box::new(input));
    z.verif_push(Box::new(crate::input::input_field::verif::new_field(IngredientIndex::new(IN), 0)));
    z.verif_push(Box::new(crate::input::input_field::verif::new_field(IngredientIndex::new(IN), 1)));
    // SAFETY: correct memo type for the ingredient
    let fi = unsafe {
        <crate::memo_ingredient_indices::MemoIngredientSingletonIndex as crate::memo_ingredient_indices::NewMemoIngredientIndices>::create(
            &mut z,
            IngredientIndex::new(IN).into(),
            IngredientIndex::new(F),
            crate::table::memo::MemoEntryType::of::<Memo<CF>>(),
            None,
        )
    };
    let f = IngredientImpl::<CF>::new(IngredientIndex::new(F), fi, 0);
    f.get_or_init(|| crate::views::verif::caster::<HDb>());
    z.verif_push(Box::new(f));
    if with_g {
        // SAFETY: correct memo type for the ingredient
        let gi = unsafe {
            <crate::memo_ingredient_indices::MemoIngredientSingletonIndex as crate::memo_ingredient_indices::NewMemoIngredientIndices>::create(
                &mut z,
                IngredientIndex::new(IN).into(),
                IngredientIndex::new(G),
                crate::table::memo::MemoEntryType::of::<Memo<CG>>(),
                None,
            )
        };
        let g = IngredientImpl::<CG>::new(IngredientIndex::new(G), gi, 0);
        g.get_or_init(|| crate::views::verif::caster::<HDb>());
        z.verif_push(Box::new(g));
    }
    HDb { zalsa: z, local: ZalsaLocal::new() }
}

/// What `setup_input_struct!`'s setter does: `zalsa_mut()`, `new_revision()`, `set_field` on the ingredient.
fn write_field(db: &mut HDb, id: Id, fi: usize, newd: Option<Durability>, nv: u32) {
    let z = db.zalsa_mut();
    z.new_revision();
    let (ing, rt) = z.lookup_ingredient_mut(IngredientIndex::new(IN));
    let ing = ing.assert_type_mut::<crate::input::IngredientImpl<KI>>();
    ing.set_field(rt, crate::plumbing::FromId::from_id(id), fi, newd, |f| {
        if fi == 0 {
            f.0 = nv
        } else {
            f.1 = nv
        }
    });
}

fn field0(db: &HDb, id: Id) -> u32 {
    crate::input::verif::fields_of(&db.zalsa, id).0
}

/// The symbolic middle step of every history below.
/// Returns (field 0 was written, field 0's value changed).
fn any_step(db: &mut HDb, id: Id) -> (bool, bool) {
    let op: u8 = vk::any();
    vk::assume(op <= 3);
    let before = field0(db, id);
    match op {
        0 => (false, false), // nothing: same revision
        1 => {
            // synthetic write of any writable durability (Database::synthetic_write, default method)
            let d = vk::any_writable_durability();
            db.synthetic_write(d);
            (false, false)
        }
        2 => {
            // write the field F does not read, any new durability
            let newd: Option<Durability> = if vk::any() { Some(vk::any_durability()) } else { None };
            write_field(db, id, 1, newd, vk::any());
            (false, false)
        }
        _ => {
            let newd: Option<Durability> = if vk::any() { Some(vk::any_durability()) } else { None };
            let nv: u32 = vk::any();
            write_field(db, id, 0, newd, nv);
            (true, nv != before)
        }
    }
}

fn any_input(db: &HDb) -> Id {
    // writable durabilities only: the step may write either field (never-change writes are K-IN-2)
    let (d0, d1) = (vk::any_writable_durability(), vk::any_writable_durability());
    let v0: u32 = vk::any();
    crate::input::verif::alloc_input_v(db.zalsa.runtime(), input_ing(&db.zalsa), (v0, 20), [Revision::start(), Revision::start()], [d0, d1])
}

//@off(cbmc-does-not-finish) id=K-ENG-1 kind=B bound=history=fetch;one-step;fetch props=C01,C02,C03 timeout=3000 fn=IngredientImpl::fetch,IngredientImpl::refresh_memo,IngredientImpl::fetch_hot,IngredientImpl::fetch_cold,IngredientImpl::execute,IngredientImpl::execute_query,IngredientImpl::insert_memo,IngredientImpl::backdate_if_appropriate,MemoHeader::verify_memo,MemoHeader::deep_verify_memo,MemoHeader::deep_verify_edges,SyncTable::try_claim,ClaimGuard::drop,ZalsaLocal::push_query,ActiveQueryGuard::pop,input::IngredientImpl::field,input::IngredientImpl::set_field,FieldIngredientImpl::maybe_changed_after,Database::synthetic_write
//@ pre: fresh database; one input (two fields, any values, any writable durabilities); f(input) reads field 0
//@ pre: history: request f; then one of {nothing, synthetic write of any durability, write of field 1, write of field 0} with any new value / new durability; request f again
//@ post: both requests return the current value of field 0 (= what a fresh database would compute)  [C01, C02]
//@ post: f's body runs exactly once for the first request; for the second it runs again iff field 0 was written [C03: a write to a field f did not read, a synthetic write, or nothing never re-execute f]
#[cfg_attr(kani, kani::proof)]
#[cfg_attr(kani, kani::unwind(8))]
#[cfg_attr(kani, kani::stub(crate::sync::max_parallelism, crate::verif_support::one_core))]
#[cfg_attr(salsa_verif_replay, test)]
fn k_eng_1_fetch_write_fetch() {
    let mut db = harness_db(false);
    let id = any_input(&db);
    let r1 = {
        let (z, l) = db.zalsas();
        *f_ing(z).fetch(&db, z, l, id)
    };
    assert!(r1 == field0(&db, id));
    // SAFETY: single-threaded harness
    assert!(unsafe { EXEC_F } == 1);
    let (wrote0, _) = any_step(&mut db, id);
    let r2 = {
        let (z, l) = db.zalsas();
        *f_ing(z).fetch(&db, z, l, id)
    };
    assert!(r2 == field0(&db, id));
    // SAFETY: single-threaded harness
    assert!(unsafe { EXEC_F } == if wrote0 { 2 } else { 1 });
    vcover!();
    std::mem::forget(db);
}

//@off(cbmc-does-not-finish) id=K-ENG-0 kind=B bound=history=fetch;fetch props=C01,C03,C17 timeout=1800 fn=IngredientImpl::fetch,IngredientImpl::fetch_hot,IngredientImpl::fetch_cold,IngredientImpl::execute,IngredientImpl::insert_memo
//@ pre: fresh database; one input with any field values and writable durabilities; f(input) reads field 0
//@ post: the first request runs f's body once and returns field 0; a second request in the same revision returns the same value without running the body again
#[cfg_attr(kani, kani::proof)]
#[cfg_attr(kani, kani::unwind(8))]
#[cfg_attr(kani, kani::stub(crate::sync::max_parallelism, crate::verif_support::one_core))]
#[cfg_attr(salsa_verif_replay, test)]
fn k_eng_0_fetch_twice() {
    let db = harness_db(false);
    let id = any_input(&db);
    let (z, l) = db.zalsas();
    let r1 = *f_ing(z).fetch(&db, z, l, id);
    assert!(r1 == field0(&db, id));
    // SAFETY: single-threaded harness
    assert!(unsafe { EXEC_F } == 1);
    let r2 = *f_ing(z).fetch(&db, z, l, id);
    assert!(r2 == r1);
    // SAFETY: single-threaded harness
    assert!(unsafe { EXEC_F } == 1);
    vcover!();
    std::mem::forget(db);
}

//@off(cbmc-does-not-finish) id=K-ENG-2 kind=B bound=history=fetch;one-step;fetch props=C04,C01 timeout=3000 fn=IngredientImpl::fetch,IngredientImpl::fetch_cold,IngredientImpl::execute,MemoHeader::deep_verify_memo,MemoHeader::shallow_verify_memo,Database::report_untracked_read,ZalsaLocal::report_untracked_read,ActiveQuery::add_untracked_read
//@ pre: as K-ENG-1, but f's body also reports an untracked read (Database::report_untracked_read)
//@ post: the second request re-executes f iff the step started a new revision (any write, including a synthetic write of any durability and a write to a field f never read); within the same revision f is not re-executed; results equal field 0
#[cfg_attr(kani, kani::proof)]
#[cfg_attr(kani, kani::unwind(8))]
#[cfg_attr(kani, kani::stub(crate::sync::max_parallelism, crate::verif_support::one_core))]
#[cfg_attr(salsa_verif_replay, test)]
fn k_eng_2_untracked_reexecutes_every_revision() {
    // SAFETY: single-threaded harness
    unsafe { F_MODE = 1 };
    let mut db = harness_db(false);
    let id = any_input(&db);
    let r1 = {
        let (z, l) = db.zalsas();
        *f_ing(z).fetch(&db, z, l, id)
    };
    assert!(r1 == field0(&db, id));
    let rev1 = db.zalsa.current_revision();
    let _ = any_step(&mut db, id);
    let new_rev = db.zalsa.current_revision() != rev1;
    let r2 = {
        let (z, l) = db.zalsas();
        *f_ing(z).fetch(&db, z, l, id)
    };
    assert!(r2 == field0(&db, id));
    // SAFETY: single-threaded harness
    assert!(unsafe { EXEC_F } == if new_rev { 2 } else { 1 });
    vcover!();
    std::mem::forget(db);
}

//@off(cbmc-does-not-finish) id=K-ENG-3 kind=B bound=history=fetch;one-step;fetch props=C03,C01 timeout=3600 fn=IngredientImpl::fetch,IngredientImpl::fetch_cold,IngredientImpl::execute,IngredientImpl::backdate_if_appropriate,IngredientImpl::maybe_changed_after,IngredientImpl::maybe_changed_after_cold,MemoHeader::deep_verify_edges,MemoHeader::backdate,ZalsaLocal::report_tracked_read
//@ pre: g(input) = f(input) ^ 0x5555, f(input) = field0 & 1; history: request g; one symbolic step; request g
//@ post: g's result equals the fresh value both times [C01]; f re-executes iff field 0 was written; g re-executes iff f's *value* changed (backdating: an equal result of f does not re-execute its reader) [C03]
#[cfg_attr(kani, kani::proof)]
#[cfg_attr(kani, kani::unwind(8))]
#[cfg_attr(kani, kani::stub(crate::sync::max_parallelism, crate::verif_support::one_core))]
#[cfg_attr(salsa_verif_replay, test)]
fn k_eng_3_backdating_two_levels() {
    // SAFETY: single-threaded harness
    unsafe { F_MODE = 2 };
    let mut db = harness_db(true);
    let id = any_input(&db);
    let r1 = {
        let (z, l) = db.zalsas();
        *g_ing(z).fetch(&db, z, l, id)
    };
    let v1 = field0(&db, id);
    assert!(r1 == (v1 & 1) ^ 0x5555);
    // SAFETY: single-threaded harness
    assert!(unsafe { EXEC_F } == 1 && unsafe { EXEC_G } == 1);
    let (wrote0, _) = any_step(&mut db, id);
    let r2 = {
        let (z, l) = db.zalsas();
        *g_ing(z).fetch(&db, z, l, id)
    };
    let v2 = field0(&db, id);
    assert!(r2 == (v2 & 1) ^ 0x5555);
    // SAFETY: single-threaded harness
    unsafe {
        assert!(EXEC_F == if wrote0 { 2 } else { 1 });
        assert!(EXEC_G == if (v1 & 1) != (v2 & 1) { 2 } else { 1 });
    }
    vcover!();
    std::mem::forget(db);
}


// =============================================================================================
// Modular obligations on the generic function ingredient ("G" units).
//
// The end-to-end harnesses above (K-ENG-*) do not finish under CBMC (DESIGN.md 13), so the generic
// engine is verified the way a deductive verifier works anyway: **one function at a time, against the
// contracts of its callees**.  The callees that CBMC cannot carry are replaced, per harness, by stubs
// that implement exactly their stated contract and *record how they were called*:
//
//   SyncTable::try_claim      -> `stub_try_claim`   (grants the claim for the requested key, or reports a
//                                                    same-thread cycle; counts claims)
//   ClaimGuard::drop_impl     -> `stub_release`     (counts releases; nobody is waiting)
//   IngredientImpl::execute   -> `stub_execute`     (records whether/with which old memo it was called,
//                                                    releases the claim, returns a harness-prepared memo
//                                                    that satisfies execute's postcondition:
//                                                    verified in the current revision, final)
// Everything else is the real code: memo table insert/get, `verify_memo`, `deep_verify_memo`,
// `deep_verify_edges` (dependencies answered by the oracle ingredient), `shallow_verify_memo`,
// `maybe_changed_after_hot`, `fetch_hot`, `update_shallow`.
// =============================================================================================
pub(crate) mod g {
    use super::*;
    use crate::function::memo::verif::header;
    use crate::zalsa::verif::oracle::*;
    use crate::zalsa_local::{OriginAndExtra, QueryEdge};

    #[derive(Copy, Clone)]
    pub(crate) struct GKey(Id);
    impl crate::plumbing::FromId for GKey {
        fn from_id(id: Id) -> Self {
            GKey(id)
        }
    }
    impl crate::plumbing::AsId for GKey {
        fn as_id(&self) -> Id {
            self.0
        }
    }
    /// The standalone memo table of the one key the harness uses.
    pub(crate) static mut G_TABLE: Option<(&'static crate::table::memo::MemoTableTypes, &'static crate::table::memo::MemoTable)> = None;
    impl crate::salsa_struct::SalsaStructInDb for GKey {
        type MemoIngredientMap = crate::memo_ingredient_indices::MemoIngredientSingletonIndex;
        const LEAF_TYPE_IDS: &'static [typeid::ConstTypeId] = &[typeid::ConstTypeId::of::<GKey>()];
        fn lookup_ingredient_index(_: &Zalsa) -> crate::memo_ingredient_indices::IngredientIndices {
            IngredientIndex::new(9).into()
        }
        fn entries(_: &Zalsa) -> impl Iterator<Item = DatabaseKeyIndex> + '_ {
            std::iter::empty()
        }
        fn cast(id: Id, _: std::any::TypeId) -> Option<Self> {
            Some(GKey(id))
        }
        unsafe fn memo_table(_: &Zalsa, _: Id, _: Revision) -> crate::table::memo::MemoTableWithTypes<'_> {
            // SAFETY: single-threaded harness
            let (t, m) = unsafe { G_TABLE }.expect("g_world() first");
            crate::table::memo::verif::attach(t, m)
        }
    }

    macro_rules! gen_config {
        ($name:ident, $strategy:expr) => {
            pub(crate) struct $name;
            // SAFETY: `u32` output.
            unsafe impl Configuration for $name {
                const DEBUG_NAME: &'static str = "gen";
                const LOCATION: crate::ingredient::Location = crate::ingredient::Location { file: "", line: 0 };
                const PERSIST: bool = false;
                type DbView = HDb;
                type SalsaStruct<'db> = GKey;
                type Input<'db> = GKey;
                type Output<'db> = u32;
                type Eviction = NoopEviction;
                const CYCLE_STRATEGY: CycleRecoveryStrategy = $strategy;
                fn values_equal<'db>(a: &u32, b: &u32) -> bool {
                    a == b
                }
                fn id_to_input(_: &Zalsa, key: Id) -> GKey {
                    GKey(key)
                }
                fn execute<'db>(_: &'db HDb, _: GKey) -> u32 {
                    unreachable!("user function is behind the stubbed `execute`")
                }
                fn cycle_initial<'db>(_: &'db HDb, _: Id, _: GKey) -> u32 {
                    INITIAL_VALUE
                }
                fn recover_from_cycle<'db>(_: &'db HDb, _: &Cycle, _: &u32, v: u32, _: GKey) -> u32 {
                    v
                }
                fn serialize<S>(_: &u32, _: S) -> Result<S::Ok, S::Error>
                where
                    S: plumbing::serde::Serializer,
                {
                    unimplemented!()
                }
                fn deserialize<'de, D>(_: D) -> Result<u32, D::Error>
                where
                    D: plumbing::serde::Deserializer<'de>,
                {
                    unimplemented!()
                }
            }
        };
    }
    pub(crate) const INITIAL_VALUE: u32 = 0xC1C1;
    gen_config!(CGen, CycleRecoveryStrategy::Panic);
    gen_config!(CGenFix, CycleRecoveryStrategy::Fixpoint);

    /// The function ingredient's own index (oracles are 0 and 1).
    pub(crate) const FN: u32 = 2;

    // ---- call records of the stubs -------------------------------------------------------------
    pub(crate) static mut EXEC_CALLS: u32 = 0;
    /// address of the old memo handed to `execute` (0 = `None`)
    pub(crate) static mut EXEC_OLD: usize = 0;
    /// the memo `execute` returns
    pub(crate) static mut EXEC_RESULT: usize = 0;

    pub(crate) fn stub_execute<'db, C: Configuration>(
        _this: &'db IngredientImpl<C>,
        _db: &'db C::DbView,
        claim_guard: ClaimGuard<'db>,
        opt_old_memo: Option<&'db Memo<C>>,
    ) -> Option<&'db Memo<C>> {
        // SAFETY: single-threaded harness; EXEC_RESULT was set by the harness to a leaked `Memo<C>`
        unsafe {
            EXEC_CALLS += 1;
            EXEC_OLD = match opt_old_memo {
                Some(m) => m as *const Memo<C> as usize,
                None => 0,
            };
            let _ = claim_guard.drop();
            Some(&*(EXEC_RESULT as *const Memo<C>))
        }
    }

    pub(crate) struct World<C: Configuration> {
        pub db: HDb,
        pub ing: IngredientImpl<C>,
        pub id: Id,
    }
    /// Bare `Zalsa` in some later revision (arbitrary monotone revision vector), two oracle ingredients,
    /// one generic function ingredient with a standalone memo table for key `id`.
    pub(crate) fn g_world<C: Configuration<SalsaStruct<'static> = GKey>>() -> (World<C>, [Revision; 3]) {
        let mut z = zalsa_with_oracles(2, false);
        let (r0, r1, r2) = (vk::any_revision(), vk::any_revision(), vk::any_revision());
        vk::assume(r0 >= r1 && r1 >= r2);
        crate::runtime::verif::set_revs(z.runtime_mut(), [r0, r1, r2]);
        // SAFETY: single-threaded harness
        unsafe { G_TABLE = Some(crate::table::memo::verif::standalone::<Memo<C>>()) };
        let ing = IngredientImpl::<C>::new(IngredientIndex::new(FN), crate::memo_ingredient_indices::verif::singleton(0), 0);
        // SAFETY: small index
        let id = unsafe { Id::from_index(7) };
        (World { db: HDb { zalsa: z, local: ZalsaLocal::new() }, ing, id }, [r0, r1, r2])
    }
    /// A final derived memo with one input edge on oracle ingredient 0.
    pub(crate) fn memo_with_one_input<C: Configuration<Output<'static> = u32>>(value: Option<u32>, verified_at: Revision, d: Durability, changed_at: Revision) -> Memo<C> {
        let origin = OriginAndExtra::derived([QueryEdge::input(vk::key(0, 1))].into_iter(), Default::default());
        Memo::new(value, verified_at, crate::zalsa_local::verif::revs(d, changed_at, true, origin))
    }
    fn leak<C: Configuration>(m: Memo<C>) -> usize {
        Box::leak(Box::new(m)) as *const Memo<C> as usize
    }

    //@ob id=G-MCA-1 kind=C props=C01,C03,C04,C17 timeout=1800 fn=IngredientImpl::maybe_changed_after,IngredientImpl::maybe_changed_after_cold,MemoHeader::verify_memo,MemoHeader::maybe_changed_after_hot flags=stubs
    //@ pre: any monotone revision vector; a key whose stored memo is final, derived from one input, with any value presence (Some / evicted), any durability, verified at any earlier-or-current revision, changed_at <= verified_at; the input answers changed/unchanged nondeterministically; `execute` (stubbed) returns a memo verified now whose changed_at is any revision <= current; any query revision `rev`
    //@ post: answer Unchanged <=> the memo that is valid at the end (the old one if it verified, else the re-executed one) has changed_at <= rev  [C01: a dependency that changed after `rev` is never reported unchanged - in particular after re-executing, the *new* changed_at is compared with the caller's revision, not with the old memo's; C03: nothing else makes it Changed]
    //@ post: `execute` runs at most once, only when verification failed and a value was there to compare; it receives the stored memo as old memo; an evicted memo that does not verify reports Changed without executing
    //@ post: every granted claim is released exactly once
    #[cfg_attr(kani, kani::proof)]
    #[cfg_attr(kani, kani::unwind(6))]
    #[cfg_attr(kani, kani::stub(crate::sync::max_parallelism, crate::verif_support::one_core))]
    #[cfg_attr(kani, kani::stub(crate::function::sync::SyncTable::try_claim, crate::function::sync::verif::stub_try_claim))]
    #[cfg_attr(kani, kani::stub(crate::function::sync::ClaimGuard::drop_impl, crate::function::sync::ClaimGuard::verif_release))]
    #[cfg_attr(kani, kani::stub(crate::function::IngredientImpl::execute, stub_execute))]
    #[cfg(kani)]
    fn g_mca_1_maybe_changed_after() {
        let (w, r) = g_world::<CGen>();
        let cur = r[0];
        let (z, l) = w.db.zalsas();
        // stored memo
        let has_value: bool = vk::any();
        let (va, ca) = (vk::any_revision(), vk::any_revision());
        vk::assume(ca <= va && va <= cur);
        let d = vk::any_durability();
        let old = w.ing.insert_memo(z, w.id, memo_with_one_input::<CGen>(if has_value { Some(11) } else { None }, va, d, ca), crate::zalsa::MemoIngredientIndex::from_usize(0));
        let old_addr = old as *const Memo<CGen> as usize;
        // what a re-execution would produce
        let nca = vk::any_revision();
        vk::assume(nca <= cur);
        // SAFETY: single-threaded harness
        unsafe { EXEC_RESULT = leak(memo_with_one_input::<CGen>(Some(12), cur, d, nca)) };
        let rev = vk::any_revision();
        vk::assume(rev <= cur);
        let res = w.ing.maybe_changed_after(&w.db, w.id, rev);
        // SAFETY: single-threaded harness
        let (calls, old_seen, claims, releases) = unsafe { (EXEC_CALLS, EXEC_OLD, crate::function::sync::verif::CLAIMS, crate::function::sync::verif::RELEASES) };
        assert!(calls <= 1);
        assert!(claims == releases);
        if calls == 1 {
            assert!(has_value);
            assert!(old_seen == old_addr);
            assert!(res.is_unchanged() == (nca <= rev));
        } else if old.header.verified_at.load() == cur {
            // the stored memo is (now) valid in the current revision
            assert!(res.is_unchanged() == (ca <= rev));
        } else {
            // not verified and not re-executed: only allowed for an evicted value, and then it is Changed
            assert!(!has_value);
            assert!(!res.is_unchanged());
        }
        vcover!(calls == 1, "re-execution path reachable");
        vcover!(calls == 0 && res.is_unchanged(), "verified-unchanged path reachable");
        vcover!();
        std::mem::forget(w);
    }

    //@ob id=G-FETCH-1 kind=C props=C01,C03,C05,C06,C17 timeout=1800 fn=IngredientImpl::fetch,IngredientImpl::refresh_memo,IngredientImpl::fetch_hot,IngredientImpl::fetch_cold,MemoHeader::verify_memo flags=stubs
    //@ pre: as G-MCA-1, plus the case that no memo is stored at all
    //@ post: the returned value is the stored one iff the stored memo has a value and is valid in the current revision afterwards; otherwise it is the re-executed one [C01]; the body runs only if no valid value is available [C03]
    //@ post: `execute` receives the stored memo as old memo **whenever one is stored - also when its value was evicted** (its dependency/output bookkeeping is what `execute` diffs against) [C05: dependency information of evicted results is kept and used; C06]
    //@ post: every granted claim is released exactly once
    #[cfg_attr(kani, kani::proof)]
    #[cfg_attr(kani, kani::unwind(6))]
    #[cfg_attr(kani, kani::stub(crate::sync::max_parallelism, crate::verif_support::one_core))]
    #[cfg_attr(kani, kani::stub(crate::function::sync::SyncTable::try_claim, crate::function::sync::verif::stub_try_claim))]
    #[cfg_attr(kani, kani::stub(crate::function::sync::ClaimGuard::drop_impl, crate::function::sync::ClaimGuard::verif_release))]
    #[cfg_attr(kani, kani::stub(crate::function::IngredientImpl::execute, stub_execute))]
    #[cfg(kani)]
    fn g_fetch_1_fetch() {
        let (w, r) = g_world::<CGen>();
        let cur = r[0];
        let (z, l) = w.db.zalsas();
        let stored: bool = vk::any();
        let has_value: bool = vk::any();
        let (va, ca) = (vk::any_revision(), vk::any_revision());
        vk::assume(ca <= va && va <= cur);
        let d = vk::any_durability();
        let mut old_addr = 0usize;
        if stored {
            let old = w.ing.insert_memo(z, w.id, memo_with_one_input::<CGen>(if has_value { Some(11) } else { None }, va, d, ca), crate::zalsa::MemoIngredientIndex::from_usize(0));
            old_addr = old as *const Memo<CGen> as usize;
        }
        // SAFETY: single-threaded harness
        unsafe { EXEC_RESULT = leak(memo_with_one_input::<CGen>(Some(12), cur, d, cur)) };
        let v = *w.ing.fetch(&w.db, z, l, w.id);
        // SAFETY: single-threaded harness
        let (calls, old_seen, claims, releases) = unsafe { (EXEC_CALLS, EXEC_OLD, crate::function::sync::verif::CLAIMS, crate::function::sync::verif::RELEASES) };
        assert!(calls <= 1);
        assert!(claims == releases);
        if calls == 1 {
            assert!(v == 12);
            assert!(old_seen == old_addr);
        } else {
            assert!(stored && has_value && v == 11);
            // SAFETY: old_addr is the leaked stored memo
            let old = unsafe { &*(old_addr as *const Memo<CGen>) };
            assert!(old.header.verified_at.load() == cur);
        }
        vcover!(calls == 1 && stored && !has_value, "evicted value re-executes with its old memo");
        vcover!(calls == 0, "reuse path reachable");
        vcover!();
        std::mem::forget(w);
    }
}
