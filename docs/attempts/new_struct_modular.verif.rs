// G-NEW-1 (new_struct against the stubbed contracts of update/allocate): CBMC's SAT back end runs out of memory
// (status ERROR after 450-510 s, 16 GB limit) although the program has only 1220 checks. Kept for the record.
// ---------------------------------------------------------------------------------------------
// `new_struct` against the contracts of `update` (K-TS-5) and `allocate` (K-TS-8): both are stubbed
// ---------------------------------------------------------------------------------------------
/// 0: `update` returns `Ok(same id)`; 1: `Ok(next generation of the slot)` (identity fields changed, slot
/// reused for the new value); 2: `Err(fields)` (value already updated in this revision: caller must allocate)
pub(crate) static mut UPDATE_MODE: u8 = 0;
pub(crate) static mut UPDATE_CALLS: u32 = 0;
pub(crate) static mut ALLOC_CALLS: u32 = 0;
pub(crate) const FRESH_SLOT: u32 = 40;
pub(crate) fn stub_update<'db, C: Configuration>(_this: &'db IngredientImpl<C>, _zalsa: &'db Zalsa, id: Id, _deps: &Stamp, fields: C::Fields<'db>) -> Result<Id, C::Fields<'db>> {
    // SAFETY: single-threaded harness
    unsafe {
        UPDATE_CALLS += 1;
        match UPDATE_MODE {
            0 => Ok(id),
            1 => Ok(id.next_generation().unwrap()),
            _ => Err(fields),
        }
    }
}
pub(crate) fn stub_allocate<'db, C: Configuration>(_this: &'db IngredientImpl<C>, _zalsa: &'db Zalsa, _zalsa_local: &'db ZalsaLocal, _deps: &Stamp, fields: C::Fields<'db>) -> Id {
    std::mem::forget(fields);
    // SAFETY: single-threaded harness; small index
    unsafe {
        ALLOC_CALLS += 1;
        Id::from_index(FRESH_SLOT)
    }
}

#[cfg(kani)]
fn new_struct_case(seeded: bool) {
    let z = crate::zalsa::verif::bare_zalsa();
    let l = ZalsaLocal::new();
    let ing = IngredientImpl::<KT>::verif_new(IngredientIndex::new(4));
    let creator = vk::key(5, 3);
    let frame = l.push_query(creator);
    let fields: (u32, u32) = (7, vk::any());
    // the identity `new_struct` will compute for the first struct with these identity fields
    let ident = identity(4, crate::hash::hash(&KT::untracked_fields(&fields)), 0);
    let g: u32 = vk::any();
    vk::assume(g < u32::MAX);
    // SAFETY: small index
    let old_id = unsafe { Id::from_index(3) }.with_generation(g);
    if seeded {
        // what `execute` does before running the user function (ids of the previous execution)
        frame.seed_tracked_struct_ids(&[(ident, old_id)]);
    }
    let mode: u8 = vk::any();
    vk::assume(mode <= 2);
    // SAFETY: single-threaded harness
    unsafe { UPDATE_MODE = mode };
    let s = ing.new_struct(&z, &l, fields);
    // SAFETY: single-threaded harness
    let (uc, ac) = unsafe { (UPDATE_CALLS, ALLOC_CALLS) };
    let expected = if !seeded || mode == 2 {
        // SAFETY: small index
        unsafe { Id::from_index(FRESH_SLOT) }
    } else if mode == 1 {
        old_id.next_generation().unwrap()
    } else {
        old_id
    };
    assert!(s.0 == expected);
    assert!(uc == if seeded { 1 } else { 0 });
    assert!(ac == if !seeded || mode == 2 { 1 } else { 0 });
    // what the executing query now records for that identity
    assert!(l.tracked_struct_id(&ident) == Some(expected));
    vcover!(!seeded || mode == 1, "slot reused with a new generation");
    vcover!();
    std::mem::forget(frame);
    std::mem::forget(ing);
    std::mem::forget(l);
    std::mem::forget(z);
}

//@ob id=G-NEW-1a kind=C props=C06,C07,C01 timeout=1800 fn=IngredientImpl::new_struct,ZalsaLocal::disambiguate,ZalsaLocal::tracked_struct_id,ZalsaLocal::store_tracked_struct_id,IdentityMap::reuse,IdentityMap::insert,DisambiguatorMap::disambiguate flags=stubs,noreplay
//@ pre: a query is executing (real query stack); its identity map was seeded from the previous execution with the identity of the struct it is about to create mapped to a slot of any generation; `update` (stub = its contract, K-TS-5) keeps the id, moves to the next generation of the slot, or refuses; `allocate` (stub) hands out a fresh slot
//@ post: the struct returned is the one `update`/`allocate` produced, and **the executing query's identity map maps the identity to exactly the returned id** (what gets stored in the memo and seeds the next execution): same id when unchanged, the bumped generation when the slot was reused for changed identity fields, the fresh id otherwise
//@ post: `update` is consulted only for a seeded identity, `allocate` only when there was none or `update` refused
#[cfg(kani)]
#[kani::proof]
#[kani::unwind(5)]
#[kani::stub(crate::tracked_struct::IngredientImpl::update, stub_update)]
#[kani::stub(crate::tracked_struct::IngredientImpl::allocate, stub_allocate)]
fn g_new_1a_seeded_identity() {
    new_struct_case(true)
}

//@ob id=G-NEW-1b kind=C props=C06 timeout=1800 fn=IngredientImpl::new_struct,ZalsaLocal::disambiguate,ZalsaLocal::tracked_struct_id,ZalsaLocal::store_tracked_struct_id flags=stubs,noreplay
//@ pre: as G-NEW-1a, but the identity was not created by the previous execution (first execution, or a newly created struct)
//@ post: a fresh slot is allocated (`update` is not consulted) and the executing query records the identity with exactly that id
#[cfg(kani)]
#[kani::proof]
#[kani::unwind(5)]
#[kani::stub(crate::tracked_struct::IngredientImpl::update, stub_update)]
#[kani::stub(crate::tracked_struct::IngredientImpl::allocate, stub_allocate)]
fn g_new_1b_fresh_identity() {
    new_struct_case(false)
}
