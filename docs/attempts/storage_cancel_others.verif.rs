//! Child module of `crate::storage`: the sequential core of `cancel_others` (what a write does to the
//! cancellation epoch when it is the only handle) on a real `Storage` / `StorageHandle` / `Arc<Zalsa>`.
use super::*;
use crate::verif_support::{self as vk, vcover};

pub(crate) struct SDb {
    storage: Storage<SDb>,
}
// SAFETY: single-threaded harness
unsafe impl Send for SDb {}
// SAFETY: `storage` / `storage_mut` return the one field
unsafe impl HasStorage for SDb {
    fn storage(&self) -> &Storage<Self> {
        &self.storage
    }
    fn storage_mut(&mut self) -> &mut Storage<Self> {
        &mut self.storage
    }
}
impl Database for SDb {}

//@ob id=K-ST-1 kind=C props=C20 timeout=1200 fn=Storage::cancel_others,CancellationFlagGuard::new,CancellationFlagGuard::drop,Runtime::bump_cancellation_count,Zalsa::new_revision
//@ pre: a database with a single handle (nothing to wait for), at any cancellation count 0..=255 of the current revision; a write / trigger_cancellation / LRU change asks for exclusive access
//@ post: exclusive access is granted without blocking, the cancellation flag is clear again afterwards, and **a new cancellation epoch has begun**: the count is one higher, or - at 255 - a new revision has started with count 0. (Every write starts a new epoch whether or not anybody had to be waited for: a reader may have dropped its handle between being told to cancel and the writer's check, and what it abandoned must not count as current.)
#[cfg(kani)]
#[kani::proof]
#[kani::unwind(4)]
#[kani::stub(crate::sync::max_parallelism, crate::verif_support::one_core)]
fn k_st_1_write_starts_a_new_epoch() {
    let mut db = SDb { storage: Storage::new(None) };
    let n: u8 = vk::any();
    {
        let z = crate::sync::Arc::get_mut(&mut db.storage.handle.zalsa_impl).unwrap();
        crate::runtime::verif::set_cancellation_count(z.runtime_mut(), n);
    }
    let rev0 = db.storage.handle.zalsa_impl.current_revision();
    let z = db.storage.cancel_others();
    let (rev1, n1) = (z.current_revision(), z.runtime().cancellation_count());
    if n == u8::MAX {
        assert!(rev1 == rev0.next() && n1 == 0);
    } else {
        assert!(rev1 == rev0 && n1 == n + 1);
    }
    assert!(!z.runtime().load_cancellation_flag());
    vcover!(n == u8::MAX, "overflow case reachable");
    vcover!();
    std::mem::forget(db);
}
