// K-IN-5 (third session): three handles that come and go allocating through the real `ZalsaLocal::allocate` /
// `allocate_cold` with page recycling in between, query stacks in typed cells (DESIGN 14.1).  CBMC fails with
// status 6 (out of memory, 16 GB) after 212 s: the page's fill level and slots live in heap objects (boxcar bucket,
// boxed slot array), so after the first allocation every later one is encoded over a symbolic fill level.  The
// single allocation step (K-TBL-2), the pool (K-TBL-3) and the hand-over (K-ST-2a/2b, K-ZL-3) stay separate
// obligations; their composition over whole histories is L-ID-1.
//@ob id=K-IN-5 kind=C props=C24 timeout=1200 fn=ZalsaLocal::allocate,ZalsaLocal::allocate_cold,ZalsaLocal::record_unfilled_pages,Table::fetch_or_push_page,Table::take_non_full_page,Table::record_unfilled_page,Table::push_page,PageView::allocate
//@ pre: one database, a registered input ingredient; handle A creates two structs, is dropped (hands its pages over); a new handle B creates a struct; while B is alive a third handle C creates a struct (real `ZalsaLocal::allocate` / `allocate_cold`, real table and page pool; any field values)
//@ post: the four identities are pairwise distinct and each reads back the fields it was created with; B continues A's unfilled page (it is recycled, so nothing is wasted) and C - while B is alive - gets a **different** page: the recycled page has exactly one writer at a time
#[cfg_attr(kani, kani::proof)]
#[cfg_attr(kani, kani::unwind(5))]
#[cfg_attr(salsa_verif_replay, test)]
fn k_in_5_handles_that_come_and_go_allocate_distinct_ids() {
    use crate::zalsa_local::verif::local_on;
    let mut z = crate::zalsa::verif::bare_zalsa();
    let idx = IngredientIndex::new(0);
    z.verif_push(Box::new(IngredientImpl::<KI>::new(idx)));
    let (mut c1, mut c2, mut c3) = (crate::active_query::verif::stack_cell(), crate::active_query::verif::stack_cell(), crate::active_query::verif::stack_cell());
    let types = z.lookup_ingredient(idx).memo_table_types().clone();
    let r = Revision::start();
    let v: [u32; 4] = [vk::any(), vk::any(), vk::any(), vk::any()];
    let mk = |x: u32| {
        let types = types.clone();
        move |_id: Id| Value::<KI> {
            fields: (x, x ^ 1),
            revisions: [r, r],
            durabilities: [Durability::LOW, Durability::LOW],
            // SAFETY: the ingredient's memo table types
            memos: unsafe { MemoTable::new(&types) },
        }
    };
    let mut a = local_on(&mut c1);
    let (id1, _) = a.allocate::<Value<KI>>(&z, idx, mk(v[0]));
    let (id2, _) = a.allocate::<Value<KI>>(&z, idx, mk(v[1]));
    // handle A goes away
    a.record_unfilled_pages(z.table());
    std::mem::forget(a);
    let b = local_on(&mut c2);
    let (id3, _) = b.allocate::<Value<KI>>(&z, idx, mk(v[2]));
    let c = local_on(&mut c3);
    let (id4, _) = c.allocate::<Value<KI>>(&z, idx, mk(v[3]));
    let ids = [id1, id2, id3, id4];
    let mut i = 0;
    while i < 4 {
        let mut j = i + 1;
        while j < 4 {
            assert!(ids[i] != ids[j]);
            j += 1;
        }
        assert!(fields_of(&z, ids[i]) == (v[i], v[i] ^ 1));
        i += 1;
    }
    let page = |id: Id| crate::table::verif::page_of(id);
    assert!(page(id1) == page(id2));
    assert!(page(id3) == page(id1));
    assert!(page(id4) != page(id1));
    vcover!();
    std::mem::forget(b);
    std::mem::forget(c);
    std::mem::forget(z);
}
