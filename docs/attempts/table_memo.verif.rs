//! Child module of `crate::table::memo`: a *standalone* memo table (real `MemoTableTypes` + real
//! `MemoTable`, not hung off a `Table` page) for the modular harnesses of the generic function
//! ingredient.  All accesses go through the real `MemoTableWithTypes::{insert,get,get_erased}`.
use super::*;

/// One-slot memo table registered for memo type `M` (slot index 0), leaked for `'static`.
pub(crate) fn standalone<M: Memo>() -> (&'static MemoTableTypes, &'static MemoTable) {
    let mut types = MemoTableTypes::default();
    types.set(MemoIngredientIndex::from_usize(0), MemoEntryType::of::<M>());
    let types: &'static MemoTableTypes = Box::leak(Box::new(types));
    // SAFETY: same types object is attached below
    let memos: &'static MemoTable = Box::leak(Box::new(unsafe { MemoTable::new(types) }));
    (types, memos)
}
/// Attach (what `Table::memos` does for a slot).
pub(crate) fn attach(types: &'static MemoTableTypes, memos: &'static MemoTable) -> MemoTableWithTypes<'static> {
    // SAFETY: `memos` was created for `types`
    unsafe { types.attach_memos(memos) }
}
