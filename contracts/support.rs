//! `crate::verif_support` — injected into the scratch copy's `lib.rs` under
//! `cfg(any(kani, salsa_verif_replay))`.  The value source shared by every obligation body.
//!
//! * under `cfg(kani)` every draw is `kani::any()` (fully symbolic), `assume` is `kani::assume`;
//! * under `cfg(salsa_verif_replay)` (plain `cargo test --lib` on the repo's own toolchain) draws pop
//!   the byte vectors of Kani's concrete-playback counterexample, in call order (one little-endian
//!   vector per draw), from the environment variable `VERIF_REPLAY_BYTES` ("1,0;255;3,0,0,0").
//!
//! Obligation bodies use plain `assert!`, so that the very same text is a Kani proof harness and a
//! replay test on the real code.

#[cfg(kani)]
mod imp {
    pub fn bytes<const N: usize>() -> [u8; N] {
        unreachable!()
    }
    pub fn assume(c: bool) {
        kani::assume(c)
    }
}

#[cfg(not(kani))]
mod imp {
    use std::cell::RefCell;
    use std::collections::VecDeque;
    thread_local! {
        static BYTES: RefCell<Option<VecDeque<Vec<u8>>>> = const { RefCell::new(None) };
    }
    fn load() -> VecDeque<Vec<u8>> {
        let s = std::env::var("VERIF_REPLAY_BYTES").unwrap_or_default();
        s.split(';')
            .filter(|v| !v.trim().is_empty())
            .map(|v| v.split(',').map(|b| b.trim().parse::<u8>().expect("bad replay byte")).collect())
            .collect()
    }
    pub fn bytes<const N: usize>() -> [u8; N] {
        BYTES.with(|b| {
            let mut b = b.borrow_mut();
            let q = b.get_or_insert_with(load);
            let v = q.pop_front().unwrap_or_else(|| panic!("REPLAY-OUT-OF-VALUES"));
            let mut out = [0u8; N];
            for (i, x) in v.iter().take(N).enumerate() {
                out[i] = *x;
            }
            out
        })
    }
    pub fn assume(c: bool) {
        if !c {
            panic!("REPLAY-PRECONDITION-FALSE");
        }
    }
}

pub(crate) use crate::verif_refs as refs;

pub(crate) trait Draw: Sized {
    fn draw() -> Self;
}
macro_rules! draw_int {
    ($($t:ty : $n:expr),*) => {$(
        impl Draw for $t {
            #[cfg(kani)]
            fn draw() -> Self { kani::any() }
            #[cfg(not(kani))]
            fn draw() -> Self { <$t>::from_le_bytes(imp::bytes::<$n>()) }
        }
    )*};
}
draw_int!(u8: 1, u16: 2, u32: 4, u64: 8, usize: 8);
impl Draw for bool {
    #[cfg(kani)]
    fn draw() -> Self {
        kani::any()
    }
    #[cfg(not(kani))]
    fn draw() -> Self {
        imp::bytes::<1>()[0] != 0
    }
}

/// A fully symbolic value of `T` (replay: the next recorded value).
pub(crate) fn any<T: Draw>() -> T {
    T::draw()
}
/// Precondition.
pub(crate) fn assume(c: bool) {
    imp::assume(c)
}

/// Reachability witness at the harness' own source location (vacuity guard).
macro_rules! vcover {
    () => {
        #[cfg(kani)]
        kani::cover!(true, "end-of-harness reachable");
    };
    ($c:expr) => {
        #[cfg(kani)]
        kani::cover!($c);
    };
    ($c:expr, $m:literal) => {
        #[cfg(kani)]
        kani::cover!($c, $m);
    };
}
pub(crate) use vcover;

// ---------------------------------------------------------------------------------------------
// Type invariants as generators (each is the *complete* domain of the type, nothing is sampled).
// ---------------------------------------------------------------------------------------------
use crate::zalsa::IngredientIndex;
use crate::{DatabaseKeyIndex, Durability, Id, Revision};

/// All four durabilities.
pub(crate) fn any_durability() -> Durability {
    let d: u8 = any();
    assume(d <= 3);
    durability_of(d)
}
pub(crate) fn durability_of(d: u8) -> Durability {
    match d {
        0 => Durability::LOW,
        1 => Durability::MEDIUM,
        2 => Durability::HIGH,
        _ => Durability::NEVER_CHANGE,
    }
}
/// All three durabilities that may be written.
pub(crate) fn any_writable_durability() -> Durability {
    let d: u8 = any();
    assume(d <= 2);
    durability_of(d)
}
/// Every revision `1 ..= usize::MAX - 1` (`Revision` is `NonZeroUsize`; `next()` must not overflow).
pub(crate) fn any_revision() -> Revision {
    let r: usize = any();
    assume(r >= 1 && r < usize::MAX);
    Revision::from(r)
}
/// Every valid `Id`: index `< Id::MAX_U32`, any generation.
pub(crate) fn any_id() -> Id {
    let idx: u32 = any();
    assume(idx < Id::MAX_U32);
    let g: u32 = any();
    // SAFETY: index is below `Id::MAX_U32`.
    unsafe { Id::from_index(idx) }.with_generation(g)
}
/// Every valid untagged ingredient index.
pub(crate) fn any_ingredient() -> IngredientIndex {
    let ing: u32 = any();
    assume(ing <= 0x7FFF_FFFF);
    IngredientIndex::new(ing)
}
/// Every valid database key.
pub(crate) fn any_key() -> DatabaseKeyIndex {
    let ing = any_ingredient();
    DatabaseKeyIndex::new(ing, any_id())
}
/// A fixed key (ingredient `ing`, slot `i`, generation 0).
pub(crate) fn key(ing: u32, i: u32) -> DatabaseKeyIndex {
    // SAFETY: small index.
    DatabaseKeyIndex::new(IngredientIndex::new(ing), unsafe { Id::from_index(i) })
}

/// Stand-in for `crate::sync::max_parallelism` (`std::thread::available_parallelism` is a syscall):
/// one shard / one parallel slot.  Used with `#[kani::stub]` only.
pub(crate) fn one_core() -> usize {
    1
}
