//! `crate::verif_prog` - obligations on **macro-generated code**.  The salsa structs below are declared with
//! the public attribute macros, so the `Configuration` impls under check are what `salsa-macros` /
//! `salsa-macro-rules` (`components/`) generate for user code, not hand copies.  `extern crate self as
//! salsa;` is injected into the scratch copy's `lib.rs` (under the same cfg guard) so that the `::salsa::`
//! paths of the expansions resolve inside the crate itself.  Nothing here runs the generic engine (that does
//! not finish under CBMC, DESIGN.md 13.3); the generated functions are called directly.
#![allow(warnings, clippy::all)]
use crate as salsa;
use crate::revision::AtomicRevision;
use crate::tracked_struct::Configuration as TsConfiguration;
use crate::verif_support::{self as vk, vcover};
use crate::Revision;

/// Two identity (untracked) fields, one tracked field.
#[salsa::tracked]
pub(crate) struct MT<'db> {
    pub a: u32,
    pub b: u32,
    #[tracked]
    pub t: u32,
}

//@ob id=K-MAC-1 kind=C props=C07,C06,C01 timeout=900 fn=setup_tracked_struct::update_fields,update_field
//@ pre: the macro-generated `Configuration::update_fields` of a tracked struct with identity fields (a, b) and tracked field t; any old and new field values; any revisions
//@ post: afterwards the stored fields are **exactly the new fields - every one of them** (an identity field is overwritten even when an earlier identity field already differed: the slot is about to be handed out as a new struct and must not keep a predecessor's value); the result is true <=> some identity field differed; the tracked field's revision becomes `current` <=> its value differed, else is untouched
#[cfg_attr(kani, kani::proof)]
#[cfg_attr(kani, kani::unwind(4))]
#[cfg_attr(salsa_verif_replay, test)]
fn k_mac_1_generated_update_fields() {
    type C = MT<'static>;
    let old: (u32, u32, u32) = (vk::any(), vk::any(), vk::any());
    let new: (u32, u32, u32) = (vk::any(), vk::any(), vk::any());
    let (r_old, r_now) = (vk::any_revision(), vk::any_revision());
    let revisions: <C as TsConfiguration>::Revisions = <C as TsConfiguration>::new_revisions(r_old);
    let mut stored = old;
    let changed = <C as TsConfiguration>::update_fields(r_now, &revisions, &mut stored, new);
    assert!(stored == new);
    assert!(changed == (old.0 != new.0 || old.1 != new.1));
    assert!(revisions[0].load() == if old.2 != new.2 { r_now } else { r_old });
    vcover!(old.0 != new.0 && old.1 != new.1, "both identity fields differ");
    vcover!();
}
