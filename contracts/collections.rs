//! `crate::verif_collections` — P4 (DESIGN.md 2.2 / 13): under `cfg(kani)` the hash collections salsa
//! uses on the paths we verify are replaced by **association-list models** with the same interface
//! subset and the documented semantics of the originals:
//!
//! | alias / path in salsa                         | original                         | model here      |
//! |-----------------------------------------------|----------------------------------|-----------------|
//! | `crate::hash::FxIndexSet<K>`                  | `indexmap::IndexSet<K, FxHasher>`| `IndexSet<K>`   |
//! | `crate::hash::FxHashSet<K>`                   | `std::collections::HashSet`      | `HashSet<K>`    |
//! | `crate::hash::FxLinkedHashSet<K>`             | `hashlink::LinkedHashSet`        | `LinkedHashSet<K>` |
//! | `hashbrown::HashTable<T>` in `function/sync.rs`, `tracked_struct.rs` | `hashbrown::HashTable` | `hashbrown::HashTable<T>` |
//! | `hashbrown::HashMap<K,V,()>` (raw-entry API) in `tracked_struct.rs`   | `hashbrown::HashMap`   | `hashbrown::HashMap<K,V,S>` |
//!
//! Why: CBMC cannot carry hashbrown's control-byte groups (a single insert costs 30-120 s, two or three
//! never finish - DESIGN.md 3/12.3), which put `SyncTable`, `IdentityMap`, `ActiveQuery`'s edge set,
//! `diff_outputs` and everything above them out of reach.  What is trusted instead: that the real
//! collections implement the set/map/sequence semantics written here (each method's comment quotes the
//! upstream documentation).  The *callers'* logic - which is salsa's code - is verified as is.
//! Hash values passed by callers are ignored; lookups use the callers' own equality closures.
#![allow(dead_code)]
use std::marker::PhantomData;

/// Capacity of every model collection.  All models allocate their backing store once, with this capacity, and
/// never grow it: a `Vec` whose length became symbolic (an insert that may or may not find its key) and is then
/// pushed to makes CBMC encode a re-allocation of symbolic size, which exhausts the SAT back end's memory
/// (DESIGN.md 13.3).  A harness that puts more than `MODEL_CAP` elements into one collection fails the assertion
/// below, whose message `tools/kani_run.py` classifies as UNDECIDED (a limit of the model), never as a violation.
pub const MODEL_CAP: usize = 8;

/// The backing store of every model: an **inline** array of `MODEL_CAP` slots plus a length (the `Vec` subset the
/// models need).  Inline because CBMC treats heap objects as untyped bytes: lengths, keys and above all pointers
/// read back from a `Vec`'s heap buffer stay symbolic during symbolic execution, so look-up branches are not pruned
/// and the formula explodes (DESIGN.md 14.1).  A model that lives in a struct on the harness's stack is now made of
/// typed fields only.
pub struct MVec<T> {
    slots: [std::mem::MaybeUninit<T>; MODEL_CAP],
    len: usize,
}
impl<T> MVec<T> {
    pub const fn new() -> Self {
        MVec { slots: [const { std::mem::MaybeUninit::uninit() }; MODEL_CAP], len: 0 }
    }
    pub fn capacity(&self) -> usize {
        MODEL_CAP
    }
    pub fn push(&mut self, x: T) {
        assert!(self.len < MODEL_CAP, "verif-model-capacity: more than MODEL_CAP elements in a model collection");
        self.slots[self.len].write(x);
        self.len += 1;
    }
    pub fn pop(&mut self) -> Option<T> {
        if self.len == 0 {
            None
        } else {
            self.len -= 1;
            // SAFETY: slot `len` was initialised and is no longer counted
            Some(unsafe { self.slots[self.len].assume_init_read() })
        }
    }
    /// `Vec::remove`: shifts the elements after `i` down by one.
    pub fn remove(&mut self, i: usize) -> T {
        assert!(i < self.len, "removal index out of bounds");
        // SAFETY: i < len
        let out = unsafe { self.slots[i].assume_init_read() };
        let mut j = i;
        while j + 1 < self.len {
            // SAFETY: j + 1 < len: initialised; slot j is logically empty
            let x = unsafe { self.slots[j + 1].assume_init_read() };
            self.slots[j].write(x);
            j += 1;
        }
        self.len -= 1;
        out
    }
    /// `Vec::swap_remove`: the last element takes the place of the removed one.
    pub fn swap_remove(&mut self, i: usize) -> T {
        assert!(i < self.len, "swap_remove index out of bounds");
        // SAFETY: i < len
        let out = unsafe { self.slots[i].assume_init_read() };
        self.len -= 1;
        if i != self.len {
            // SAFETY: the former last slot is initialised and no longer counted
            let last = unsafe { self.slots[self.len].assume_init_read() };
            self.slots[i].write(last);
        }
        out
    }
    /// `Vec::insert`: shifts the elements from `i` on up by one.
    pub fn insert(&mut self, i: usize, x: T) {
        assert!(i <= self.len, "insertion index out of bounds");
        assert!(self.len < MODEL_CAP, "verif-model-capacity: more than MODEL_CAP elements in a model collection");
        let mut j = self.len;
        while j > i {
            // SAFETY: j - 1 < len: initialised; slot j is logically empty
            let y = unsafe { self.slots[j - 1].assume_init_read() };
            self.slots[j].write(y);
            j -= 1;
        }
        self.slots[i].write(x);
        self.len += 1;
    }
    pub fn clear(&mut self) {
        while self.pop().is_some() {}
    }
    pub fn as_slice(&self) -> &[T] {
        // SAFETY: the first `len` slots are initialised; MaybeUninit<T> has the layout of T
        unsafe { std::slice::from_raw_parts(self.slots.as_ptr() as *const T, self.len) }
    }
    pub fn as_mut_slice(&mut self) -> &mut [T] {
        // SAFETY: as above
        unsafe { std::slice::from_raw_parts_mut(self.slots.as_mut_ptr() as *mut T, self.len) }
    }
    /// `Vec::drain(range)`: removes the range and yields its elements in order (eagerly: the rest is shifted down
    /// at once, which is what dropping a `Drain` does).
    pub fn drain<R: std::ops::RangeBounds<usize>>(&mut self, r: R) -> MIntoIter<T> {
        use std::ops::Bound::*;
        let start = match r.start_bound() {
            Included(&a) => a,
            Excluded(&a) => a + 1,
            Unbounded => 0,
        };
        let end = match r.end_bound() {
            Included(&b) => b + 1,
            Excluded(&b) => b,
            Unbounded => self.len,
        };
        assert!(start <= end && end <= self.len, "drain range out of bounds");
        let mut out = MVec::new();
        let mut k = start;
        while k < end {
            out.push(self.remove(start));
            k += 1;
        }
        out.into_iter()
    }
    pub fn retain_mut(&mut self, mut f: impl FnMut(&mut T) -> bool) {
        let mut i = 0;
        while i < self.len {
            // SAFETY: i < len
            if f(unsafe { self.slots[i].assume_init_mut() }) {
                i += 1;
            } else {
                drop(self.remove(i));
            }
        }
    }
}
impl<T> std::ops::Deref for MVec<T> {
    type Target = [T];
    fn deref(&self) -> &[T] {
        self.as_slice()
    }
}
impl<T> std::ops::DerefMut for MVec<T> {
    fn deref_mut(&mut self) -> &mut [T] {
        self.as_mut_slice()
    }
}
impl<T> Drop for MVec<T> {
    fn drop(&mut self) {
        self.clear()
    }
}
impl<T: Clone> Clone for MVec<T> {
    fn clone(&self) -> Self {
        let mut out = MVec::new();
        let mut i = 0;
        while i < self.len {
            out.push(self.as_slice()[i].clone());
            i += 1;
        }
        out
    }
}
impl<T: std::fmt::Debug> std::fmt::Debug for MVec<T> {
    fn fmt(&self, f: &mut std::fmt::Formatter<'_>) -> std::fmt::Result {
        f.debug_list().entries(self.as_slice().iter()).finish()
    }
}
/// Owning iterator over an `MVec` (front to back).
pub struct MIntoIter<T> {
    v: MVec<T>,
    next: usize,
    end: usize,
}
impl<T> IntoIterator for MVec<T> {
    type Item = T;
    type IntoIter = MIntoIter<T>;
    fn into_iter(mut self) -> MIntoIter<T> {
        let end = self.len;
        // the iterator owns the elements from here on
        self.len = 0;
        MIntoIter { v: self, next: 0, end }
    }
}
impl<T> Iterator for MIntoIter<T> {
    type Item = T;
    fn next(&mut self) -> Option<T> {
        if self.next < self.end {
            self.next += 1;
            // SAFETY: slots next..end are initialised and owned by the iterator
            Some(unsafe { self.v.slots[self.next - 1].assume_init_read() })
        } else {
            None
        }
    }
    fn size_hint(&self) -> (usize, Option<usize>) {
        (self.remaining(), Some(self.remaining()))
    }
}
impl<T> MIntoIter<T> {
    fn remaining(&self) -> usize {
        self.end - self.next
    }
}
impl<T> ExactSizeIterator for MIntoIter<T> {}
impl<T> DoubleEndedIterator for MIntoIter<T> {
    fn next_back(&mut self) -> Option<T> {
        if self.next < self.end {
            self.end -= 1;
            // SAFETY: slots next..end are initialised and owned by the iterator
            Some(unsafe { self.v.slots[self.end].assume_init_read() })
        } else {
            None
        }
    }
}
impl<T> Drop for MIntoIter<T> {
    fn drop(&mut self) {
        while self.next().is_some() {}
    }
}

#[inline]
pub(crate) fn push_bounded<T>(v: &mut MVec<T>, x: T) {
    v.push(x)
}

// ------------------------------------------------------------------------------------------------
// indexmap::IndexSet
// ------------------------------------------------------------------------------------------------
#[derive(Debug, Clone)]
pub struct IndexSet<K> {
    v: MVec<K>,
}
impl<K> Default for IndexSet<K> {
    fn default() -> Self {
        IndexSet { v: MVec::new() }
    }
}
impl<K: PartialEq> IndexSet<K> {
    fn position(&self, k: &K) -> Option<usize> {
        let mut i = 0;
        while i < self.v.len() {
            if self.v[i] == *k {
                return Some(i);
            }
            i += 1;
        }
        None
    }
    /// "Insert the value into the set. If an equivalent item already exists in the set, it returns
    /// false leaving the original value in the set and without altering its insertion order.
    /// Otherwise, it inserts the new item and returns true."
    pub fn insert(&mut self, k: K) -> bool {
        self.insert_full(k).1
    }
    /// "Insert the value into the set, and get its index. If an equivalent item already exists in the
    /// set, it returns the index of the existing item and false [...]. Otherwise, it inserts the new
    /// item and returns the index of the inserted item and true."
    pub fn insert_full(&mut self, k: K) -> (usize, bool) {
        match self.position(&k) {
            Some(i) => (i, false),
            None => {
                push_bounded(&mut self.v, k);
                (self.v.len() - 1, true)
            }
        }
    }
    pub fn contains(&self, k: &K) -> bool {
        self.position(k).is_some()
    }
    pub fn get_index_of(&self, k: &K) -> Option<usize> {
        self.position(k)
    }
    /// "Remove the value from the set, and return true if it was present. Like Vec::swap_remove, the
    /// value is removed by swapping it with the last element of the set and popping it off."
    pub fn swap_remove(&mut self, k: &K) -> bool {
        match self.position(k) {
            Some(i) => {
                self.v.swap_remove(i);
                true
            }
            None => false,
        }
    }
    /// "Remove the value from the set [...] by shifting all of the elements that follow it, preserving
    /// their relative order."
    pub fn shift_remove(&mut self, k: &K) -> bool {
        match self.position(k) {
            Some(i) => {
                self.v.remove(i);
                true
            }
            None => false,
        }
    }
}
impl<K> IndexSet<K> {
    pub fn new() -> Self {
        IndexSet { v: MVec::new() }
    }
    pub fn len(&self) -> usize {
        self.v.len()
    }
    pub fn is_empty(&self) -> bool {
        self.v.is_empty()
    }
    pub fn clear(&mut self) {
        self.v.clear()
    }
    pub fn reserve(&mut self, _n: usize) {
        // the model's backing store has a fixed capacity (MODEL_CAP)
    }
    pub fn shrink_to_fit(&mut self) {}
    pub fn get_index(&self, i: usize) -> Option<&K> {
        self.v.get(i)
    }
    pub fn first(&self) -> Option<&K> {
        self.v.first()
    }
    pub fn last(&self) -> Option<&K> {
        self.v.last()
    }
    pub fn iter(&self) -> std::slice::Iter<'_, K> {
        self.v.iter()
    }
    /// "Clears the IndexSet in the given index range, returning those values as a drain iterator."
    pub fn drain<R: std::ops::RangeBounds<usize>>(&mut self, r: R) -> MIntoIter<K> {
        self.v.drain(r)
    }
    pub fn as_slice(&self) -> &[K] {
        &self.v
    }
}
impl<K: PartialEq> Extend<K> for IndexSet<K> {
    fn extend<I: IntoIterator<Item = K>>(&mut self, it: I) {
        for k in it {
            self.insert(k);
        }
    }
}
impl<K: PartialEq> FromIterator<K> for IndexSet<K> {
    fn from_iter<I: IntoIterator<Item = K>>(it: I) -> Self {
        let mut s = IndexSet::new();
        s.extend(it);
        s
    }
}
impl<K> IntoIterator for IndexSet<K> {
    type Item = K;
    type IntoIter = MIntoIter<K>;
    fn into_iter(self) -> Self::IntoIter {
        self.v.into_iter()
    }
}
impl<'a, K> IntoIterator for &'a IndexSet<K> {
    type Item = &'a K;
    type IntoIter = std::slice::Iter<'a, K>;
    fn into_iter(self) -> Self::IntoIter {
        self.v.iter()
    }
}
impl<K> std::ops::Index<usize> for IndexSet<K> {
    type Output = K;
    fn index(&self, i: usize) -> &K {
        &self.v[i]
    }
}

// ------------------------------------------------------------------------------------------------
// std::collections::HashSet
// ------------------------------------------------------------------------------------------------
#[derive(Debug, Clone)]
pub struct HashSet<K> {
    v: MVec<K>,
}
impl<K> Default for HashSet<K> {
    fn default() -> Self {
        HashSet { v: MVec::new() }
    }
}
impl<K: PartialEq> HashSet<K> {
    /// "Adds a value to the set. Returns whether the value was newly inserted."
    pub fn insert(&mut self, k: K) -> bool {
        if self.contains(&k) {
            false
        } else {
            push_bounded(&mut self.v, k);
            true
        }
    }
    pub fn contains(&self, k: &K) -> bool {
        let mut i = 0;
        while i < self.v.len() {
            if self.v[i] == *k {
                return true;
            }
            i += 1;
        }
        false
    }
    pub fn remove(&mut self, k: &K) -> bool {
        let mut i = 0;
        while i < self.v.len() {
            if self.v[i] == *k {
                self.v.swap_remove(i);
                return true;
            }
            i += 1;
        }
        false
    }
}
impl<K> HashSet<K> {
    pub fn len(&self) -> usize {
        self.v.len()
    }
    pub fn is_empty(&self) -> bool {
        self.v.is_empty()
    }
    pub fn clear(&mut self) {
        self.v.clear()
    }
    pub fn reserve(&mut self, _n: usize) {
        // the model's backing store has a fixed capacity (MODEL_CAP)
    }
    pub fn iter(&self) -> std::slice::Iter<'_, K> {
        self.v.iter()
    }
}
impl<K: PartialEq> Extend<K> for HashSet<K> {
    fn extend<I: IntoIterator<Item = K>>(&mut self, it: I) {
        for k in it {
            self.insert(k);
        }
    }
}
impl<K: PartialEq> FromIterator<K> for HashSet<K> {
    fn from_iter<I: IntoIterator<Item = K>>(it: I) -> Self {
        let mut s = HashSet::default();
        s.extend(it);
        s
    }
}

// ------------------------------------------------------------------------------------------------
// hashlink::LinkedHashSet  (front = least recently inserted/used)
// ------------------------------------------------------------------------------------------------
#[derive(Debug, Clone)]
pub struct LinkedHashSet<K> {
    v: MVec<K>,
}
impl<K> Default for LinkedHashSet<K> {
    fn default() -> Self {
        LinkedHashSet { v: MVec::new() }
    }
}
impl<K: PartialEq> LinkedHashSet<K> {
    fn position(&self, k: &K) -> Option<usize> {
        let mut i = 0;
        while i < self.v.len() {
            if self.v[i] == *k {
                return Some(i);
            }
            i += 1;
        }
        None
    }
    /// "If the set did not have this value present, inserts it at the *back* of the internal linked
    /// list and returns true, otherwise it moves the existing value to the *back* of the internal
    /// linked list and returns false."
    pub fn insert(&mut self, k: K) -> bool {
        match self.position(&k) {
            Some(i) => {
                self.v.remove(i);
                push_bounded(&mut self.v, k);
                false
            }
            None => {
                push_bounded(&mut self.v, k);
                true
            }
        }
    }
    /// "Adds the given value to the set, replacing the existing value. If a previous value existed,
    /// returns the replaced value. In this case, the value's position in the internal linked list is
    /// *not* changed."
    pub fn replace(&mut self, k: K) -> Option<K> {
        match self.position(&k) {
            Some(i) => Some(std::mem::replace(&mut self.v[i], k)),
            None => {
                push_bounded(&mut self.v, k);
                None
            }
        }
    }
    pub fn contains(&self, k: &K) -> bool {
        self.position(k).is_some()
    }
    pub fn remove(&mut self, k: &K) -> bool {
        match self.position(k) {
            Some(i) => {
                self.v.remove(i);
                true
            }
            None => false,
        }
    }
    pub fn to_back(&mut self, k: &K) -> bool {
        match self.position(k) {
            Some(i) => {
                let x = self.v.remove(i);
                push_bounded(&mut self.v, x);
                true
            }
            None => false,
        }
    }
    pub fn to_front(&mut self, k: &K) -> bool {
        match self.position(k) {
            Some(i) => {
                let x = self.v.remove(i);
                self.v.insert(0, x);
                true
            }
            None => false,
        }
    }
}
impl<K> LinkedHashSet<K> {
    pub fn len(&self) -> usize {
        self.v.len()
    }
    pub fn is_empty(&self) -> bool {
        self.v.is_empty()
    }
    pub fn clear(&mut self) {
        self.v.clear()
    }
    pub fn front(&self) -> Option<&K> {
        self.v.first()
    }
    pub fn back(&self) -> Option<&K> {
        self.v.last()
    }
    pub fn pop_front(&mut self) -> Option<K> {
        if self.v.is_empty() {
            None
        } else {
            Some(self.v.remove(0))
        }
    }
    pub fn pop_back(&mut self) -> Option<K> {
        self.v.pop()
    }
    pub fn iter(&self) -> std::slice::Iter<'_, K> {
        self.v.iter()
    }
}

// ------------------------------------------------------------------------------------------------
// hashbrown::{HashTable, HashMap (raw entry API)}: imported as `hashbrown` by the patched files
// ------------------------------------------------------------------------------------------------
pub mod hashbrown {
    use super::PhantomData;

    #[derive(Debug, Clone)]
    pub struct HashTable<T> {
        pub(crate) v: super::MVec<T>,
    }
    impl<T> Default for HashTable<T> {
        fn default() -> Self {
            HashTable { v: super::MVec::new() }
        }
    }
    fn position<T>(v: &[T], mut eq: impl FnMut(&T) -> bool) -> Option<usize> {
        let mut i = 0;
        while i < v.len() {
            if eq(&v[i]) {
                return Some(i);
            }
            i += 1;
        }
        None
    }
    impl<T> HashTable<T> {
        pub const fn new() -> Self {
            HashTable { v: super::MVec::new() }
        }
        /// "Returns an `Entry` for an entry in the table with the given hash and which satisfies the
        /// equality function passed."
        pub fn entry(&mut self, _hash: u64, eq: impl FnMut(&T) -> bool, _hasher: impl Fn(&T) -> u64) -> hash_table::Entry<'_, T> {
            match position(&self.v, eq) {
                Some(i) => hash_table::Entry::Occupied(hash_table::OccupiedEntry { table: self, idx: i }),
                None => hash_table::Entry::Vacant(hash_table::VacantEntry { table: self }),
            }
        }
        /// "Returns an `OccupiedEntry` for an entry in the table with the given hash and which satisfies
        /// the equality function passed. [...] Returns `Err(AbsentEntry)` if there is no such entry."
        pub fn find_entry(&mut self, _hash: u64, eq: impl FnMut(&T) -> bool) -> Result<hash_table::OccupiedEntry<'_, T>, hash_table::AbsentEntry<'_, T>> {
            match position(&self.v, eq) {
                Some(i) => Ok(hash_table::OccupiedEntry { table: self, idx: i }),
                None => Err(hash_table::AbsentEntry { table: self }),
            }
        }
        pub fn find(&self, _hash: u64, eq: impl FnMut(&T) -> bool) -> Option<&T> {
            position(&self.v, eq).map(|i| &self.v[i])
        }
        pub fn find_mut(&mut self, _hash: u64, eq: impl FnMut(&T) -> bool) -> Option<&mut T> {
            match position(&self.v, eq) {
                Some(i) => Some(&mut self.v[i]),
                None => None,
            }
        }
        /// "Inserts an element into the `HashTable` with the given hash value, but without checking
        /// whether an equivalent element already exists within the table."
        pub fn insert_unique(&mut self, _hash: u64, value: T, _hasher: impl Fn(&T) -> u64) -> hash_table::OccupiedEntry<'_, T> {
            super::push_bounded(&mut self.v, value);
            let idx = self.v.len() - 1;
            hash_table::OccupiedEntry { table: self, idx }
        }
        pub fn len(&self) -> usize {
            self.v.len()
        }
        pub fn is_empty(&self) -> bool {
            self.v.is_empty()
        }
        pub fn clear(&mut self) {
            self.v.clear()
        }
        pub fn iter(&self) -> std::slice::Iter<'_, T> {
            self.v.iter()
        }
        pub fn iter_mut(&mut self) -> std::slice::IterMut<'_, T> {
            self.v.iter_mut()
        }
        pub fn drain(&mut self) -> super::MIntoIter<T> {
            self.v.drain(..)
        }
        pub fn retain(&mut self, f: impl FnMut(&mut T) -> bool) {
            self.v.retain_mut(f)
        }
        pub fn reserve(&mut self, _n: usize, _hasher: impl Fn(&T) -> u64) {
            // fixed capacity (MODEL_CAP)
        }
        pub fn shrink_to_fit(&mut self, _hasher: impl Fn(&T) -> u64) {}
        pub fn capacity(&self) -> usize {
            self.v.capacity()
        }
    }

    pub mod hash_table {
        use super::HashTable;
        pub enum Entry<'a, T> {
            Occupied(OccupiedEntry<'a, T>),
            Vacant(VacantEntry<'a, T>),
        }
        pub struct OccupiedEntry<'a, T> {
            pub(crate) table: &'a mut HashTable<T>,
            pub(crate) idx: usize,
        }
        pub struct VacantEntry<'a, T> {
            pub(crate) table: &'a mut HashTable<T>,
        }
        pub struct AbsentEntry<'a, T> {
            pub(crate) table: &'a mut HashTable<T>,
        }
        impl<T> std::fmt::Debug for AbsentEntry<'_, T> {
            fn fmt(&self, f: &mut std::fmt::Formatter<'_>) -> std::fmt::Result {
                f.write_str("AbsentEntry")
            }
        }
        impl<'a, T> OccupiedEntry<'a, T> {
            pub fn get(&self) -> &T {
                &self.table.v[self.idx]
            }
            pub fn get_mut(&mut self) -> &mut T {
                &mut self.table.v[self.idx]
            }
            pub fn into_mut(self) -> &'a mut T {
                &mut self.table.v[self.idx]
            }
            /// "Takes the value out of the entry, and returns it along with a `VacantEntry` that can be
            /// used to insert another value with the same hash as the one that was just removed."
            pub fn remove(self) -> (T, VacantEntry<'a, T>) {
                let v = self.table.v.swap_remove(self.idx);
                (v, VacantEntry { table: self.table })
            }
            pub fn into_table(self) -> &'a mut HashTable<T> {
                self.table
            }
        }
        impl<'a, T> VacantEntry<'a, T> {
            pub fn insert(self, value: T) -> OccupiedEntry<'a, T> {
                super::super::push_bounded(&mut self.table.v, value);
                let idx = self.table.v.len() - 1;
                OccupiedEntry { table: self.table, idx }
            }
            pub fn into_table(self) -> &'a mut HashTable<T> {
                self.table
            }
        }
        impl<'a, T> AbsentEntry<'a, T> {
            pub fn into_table(self) -> &'a mut HashTable<T> {
                self.table
            }
        }
        impl<'a, T> Entry<'a, T> {
            pub fn or_insert_with(self, f: impl FnOnce() -> T) -> OccupiedEntry<'a, T> {
                match self {
                    Entry::Occupied(o) => o,
                    Entry::Vacant(v) => v.insert(f()),
                }
            }
        }
    }

    #[derive(Debug, Clone)]
    pub struct HashMap<K, V, S = ()> {
        pub(crate) v: super::MVec<(K, V)>,
        _s: PhantomData<S>,
    }
    impl<K, V, S> Default for HashMap<K, V, S> {
        fn default() -> Self {
            HashMap { v: super::MVec::new(), _s: PhantomData }
        }
    }
    impl<K, V, S> HashMap<K, V, S> {
        pub fn raw_entry_mut(&mut self) -> hash_map::RawEntryBuilderMut<'_, K, V, S> {
            hash_map::RawEntryBuilderMut { map: self }
        }
        pub fn len(&self) -> usize {
            self.v.len()
        }
        pub fn is_empty(&self) -> bool {
            self.v.is_empty()
        }
        pub fn clear(&mut self) {
            self.v.clear()
        }
        pub fn shrink_to_fit(&mut self) {}
    }
    pub mod hash_map {
        use super::HashMap;
        pub struct RawEntryBuilderMut<'a, K, V, S> {
            pub(crate) map: &'a mut HashMap<K, V, S>,
        }
        pub enum RawEntryMut<'a, K, V, S> {
            Occupied(RawOccupiedEntryMut<'a, K, V, S>),
            Vacant(RawVacantEntryMut<'a, K, V, S>),
        }
        pub struct RawOccupiedEntryMut<'a, K, V, S> {
            map: &'a mut HashMap<K, V, S>,
            idx: usize,
        }
        pub struct RawVacantEntryMut<'a, K, V, S> {
            map: &'a mut HashMap<K, V, S>,
        }
        impl<'a, K, V, S> RawEntryBuilderMut<'a, K, V, S> {
            /// "Creates a `RawEntryMut` from the given hash and matching function."
            pub fn from_hash(self, _hash: u64, mut is_match: impl FnMut(&K) -> bool) -> RawEntryMut<'a, K, V, S> {
                let mut i = 0;
                while i < self.map.v.len() {
                    if is_match(&self.map.v[i].0) {
                        return RawEntryMut::Occupied(RawOccupiedEntryMut { map: self.map, idx: i });
                    }
                    i += 1;
                }
                RawEntryMut::Vacant(RawVacantEntryMut { map: self.map })
            }
        }
        impl<'a, K, V, S> RawOccupiedEntryMut<'a, K, V, S> {
            pub fn into_mut(self) -> &'a mut V {
                &mut self.map.v[self.idx].1
            }
            pub fn get(&self) -> &V {
                &self.map.v[self.idx].1
            }
            pub fn get_mut(&mut self) -> &mut V {
                &mut self.map.v[self.idx].1
            }
        }
        impl<'a, K, V, S> RawVacantEntryMut<'a, K, V, S> {
            pub fn insert_with_hasher(self, _hash: u64, key: K, value: V, _hasher: impl Fn(&K) -> u64) -> (&'a mut K, &'a mut V) {
                super::super::push_bounded(&mut self.map.v, (key, value));
                let e = self.map.v.last_mut().unwrap();
                (&mut e.0, &mut e.1)
            }
        }
    }
}

// ------------------------------------------------------------------------------------------------
// rustc_hash::FxHashMap (= std HashMap) as used by `table.rs` for the per-ingredient page pool
// ------------------------------------------------------------------------------------------------
#[derive(Debug, Clone)]
pub struct FxHashMap<K, V> {
    v: MVec<(K, V)>,
}
impl<K, V> Default for FxHashMap<K, V> {
    fn default() -> Self {
        FxHashMap { v: MVec::new() }
    }
}
pub struct MapEntry<'a, K, V> {
    map: &'a mut FxHashMap<K, V>,
    key: K,
    idx: Option<usize>,
}
impl<K: PartialEq, V> FxHashMap<K, V> {
    fn position(&self, k: &K) -> Option<usize> {
        let mut i = 0;
        while i < self.v.len() {
            if self.v[i].0 == *k {
                return Some(i);
            }
            i += 1;
        }
        None
    }
    pub fn get(&self, k: &K) -> Option<&V> {
        self.position(k).map(|i| &self.v[i].1)
    }
    pub fn get_mut(&mut self, k: &K) -> Option<&mut V> {
        match self.position(k) {
            Some(i) => Some(&mut self.v[i].1),
            None => None,
        }
    }
    /// "If the map did not have this key present, None is returned. If the map did have this key present,
    /// the value is updated, and the old value is returned."
    pub fn insert(&mut self, k: K, v: V) -> Option<V> {
        match self.position(&k) {
            Some(i) => Some(std::mem::replace(&mut self.v[i].1, v)),
            None => {
                push_bounded(&mut self.v, (k, v));
                None
            }
        }
    }
    pub fn remove(&mut self, k: &K) -> Option<V> {
        self.position(k).map(|i| self.v.swap_remove(i).1)
    }
    pub fn contains_key(&self, k: &K) -> bool {
        self.position(k).is_some()
    }
    pub fn entry(&mut self, key: K) -> MapEntry<'_, K, V> {
        let idx = self.position(&key);
        MapEntry { map: self, key, idx }
    }
    pub fn len(&self) -> usize {
        self.v.len()
    }
    pub fn is_empty(&self) -> bool {
        self.v.is_empty()
    }
    /// "Clears the map, returning all key-value pairs as an iterator."
    pub fn drain(&mut self) -> Drained<K, V> {
        Drained { v: std::mem::replace(&mut self.v, MVec::new()) }
    }
    pub fn iter(&self) -> impl Iterator<Item = (&K, &V)> {
        self.v.iter().map(|(k, v)| (k, v))
    }
    pub fn keys(&self) -> impl Iterator<Item = &K> {
        self.v.iter().map(|(k, _)| k)
    }
    pub fn values(&self) -> impl Iterator<Item = &V> {
        self.v.iter().map(|(_, v)| v)
    }
    pub fn clear(&mut self) {
        self.v.clear()
    }
}
/// The drained pairs, in some order.
pub struct Drained<K, V> {
    v: MVec<(K, V)>,
}
impl<K, V> Iterator for Drained<K, V> {
    type Item = (K, V);
    fn next(&mut self) -> Option<(K, V)> {
        self.v.pop()
    }
}
impl<'a, K, V> MapEntry<'a, K, V> {
    /// "Ensures a value is in the entry by inserting the default value if empty, and returns a mutable
    /// reference to the value in the entry."
    pub fn or_default(self) -> &'a mut V
    where
        V: Default,
    {
        self.or_insert_with(V::default)
    }
    pub fn or_insert_with(self, f: impl FnOnce() -> V) -> &'a mut V {
        match self.idx {
            Some(i) => &mut self.map.v[i].1,
            None => {
                push_bounded(&mut self.map.v, (self.key, f()));
                &mut self.map.v.last_mut().unwrap().1
            }
        }
    }
}
impl<K, V> IntoIterator for FxHashMap<K, V> {
    type Item = (K, V);
    type IntoIter = MIntoIter<(K, V)>;
    fn into_iter(self) -> Self::IntoIter {
        self.v.into_iter()
    }
}
