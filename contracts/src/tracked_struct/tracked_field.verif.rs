//! Child module of `crate::tracked_struct::tracked_field`.
use super::*;
use crate::tracked_struct::verif::{alloc_struct, KT};
use crate::verif_support::{self as vk, vcover};
use crate::zalsa::verif::oracle::dangling_db;
use crate::{Durability, Revision};

//@ob id=K-TS-7 kind=C props=C01,C03 timeout=600 fn=FieldIngredientImpl::maybe_changed_after
//@ pre: a tracked struct whose tracked field last changed at any revision; any query revision
//@ post: Changed <=> field revision > revision (both directions)
#[cfg_attr(kani, kani::proof)]
#[cfg_attr(kani, kani::unwind(4))]
#[cfg_attr(salsa_verif_replay, test)]
fn k_ts_7_tracked_field_maybe_changed_after() {
    let z = crate::zalsa::verif::bare_zalsa();
    let ing = crate::tracked_struct::IngredientImpl::<KT>::verif_new(IngredientIndex::new(0));
    let fr = vk::any_revision();
    let id = alloc_struct(&z, &ing, Some(Revision::start()), Durability::LOW, fr);
    let f = FieldIngredientImpl::<KT>::new(0, IngredientIndex::new(1));
    let rev = vk::any_revision();
    // SAFETY: db is unused by this ingredient
    let r = unsafe { Ingredient::maybe_changed_after(&f, &z, dangling_db(), id, rev) };
    assert!(r.is_unchanged() == !(fr > rev));
    vcover!();
    std::mem::forget(z);
    std::mem::forget(ing);
}
