//! Child module of `crate::table::memo`: devices for the modular harnesses of the generic function
//! ingredient (`contracts/src/function.verif.rs`), whose memo accesses are stubbed.
use super::*;

/// A one-slot memo table that is never read (the accessors that would read it are stubbed); it only has
/// to exist because `IngredientImpl::memo_slot` builds a `MemoSlot` from it.
pub(crate) fn dummy_table() -> MemoTableWithTypes<'static> {
    let types: &'static MemoTableTypes = Box::leak(Box::new(MemoTableTypes::default()));
    // SAFETY: same types object is attached
    let memos: &'static MemoTable = Box::leak(Box::new(unsafe { MemoTable::new(types) }));
    // SAFETY: `memos` was created for `types`
    unsafe { types.attach_memos(memos) }
}

impl<'a> MemoSlot<'a> {
    /// Stand-in for `get_erased`: the harness' current memo (`function::verif::CUR_MEMO`), erased the way
    /// `MemoTableWithTypes::get_erased` erases it.
    pub(crate) fn verif_get_erased(&self) -> Option<ErasedMemo<'a>> {
        type M = crate::function::Memo<crate::function::verif::CGen>;
        // SAFETY: single-threaded harness
        let p = unsafe { crate::function::verif::CUR_MEMO };
        if p == 0 {
            return None;
        }
        let ty = MemoEntryType::of::<M>();
        // SAFETY: `p` is the address of a leaked `Memo<CGen>`
        Some(unsafe { ErasedMemo::from_raw_parts(NonNull::new_unchecked(p as *mut DummyMemo), ty.to_dyn_fn, ty.type_id) })
    }
}

/// A real one-slot memo table (real `MemoTableTypes` + `MemoTable`, not hung off a `Table` page)
/// registered for memo type `M`.
pub(crate) fn standalone<M: Memo>() -> (MemoTableTypes, MemoTable) {
    let mut types = MemoTableTypes::default();
    types.set(MemoIngredientIndex::from_usize(0), MemoEntryType::of::<M>());
    // SAFETY: the table is only ever attached to `types`
    let memos = unsafe { MemoTable::new(&types) };
    (types, memos)
}
