//! Child module of `crate::cycle`: obligations on `IterationStamp` (bounded fixpoint iteration,
//! cancellation epochs).
use super::*;
use crate::verif_support::{self as vk, vcover};

/// The bound named in the property statement (NOT read from `MAX_ITERATIONS`).
const BOUND: u8 = 200;

#[cfg(kani)]
impl kani::Arbitrary for IterationStamp {
    fn any() -> Self {
        IterationStamp(kani::any())
    }
}

//@ob id=K-STAMP-1 kind=C props=C15,C20 fn=IterationStamp::new,IterationStamp::initial,IterationStamp::iteration,IterationStamp::cancellation_count,IterationStamp::is_default,IterationStamp::is_initial_iteration,IterationStamp::iteration_as_u32
//@ pre: every (iteration, cancellation_count) in u8 x u8
//@ post: decode(encode(i, c)) == (i, c); initial(c) has iteration 0 and count c; is_default <=> (0,0); is_initial_iteration <=> iteration == 0; distinct pairs give distinct stamps
#[cfg_attr(kani, kani::proof)]
#[cfg_attr(salsa_verif_replay, test)]
fn k_stamp_1_encode_decode() {
    let i: u8 = vk::any();
    let c: u8 = vk::any();
    let s = IterationStamp::new(i, c);
    assert!(s.iteration() == i);
    assert!(s.cancellation_count() == c);
    assert!(s.iteration_as_u32() == i as u32);
    assert!(s.is_default() == (i == 0 && c == 0));
    assert!(s.is_initial_iteration() == (i == 0));
    let s0 = IterationStamp::initial(c);
    assert!(s0.iteration() == 0 && s0.cancellation_count() == c);
    let i2: u8 = vk::any();
    let c2: u8 = vk::any();
    assert!((IterationStamp::new(i2, c2) == s) == (i2 == i && c2 == c));
    assert!(IterationStamp::default().is_default());
    vcover!();
}

//@ob id=K-STAMP-2 kind=C props=C15 fn=IterationStamp::increment_iteration
//@ pre: (contract on the real fn) iteration <= 200, any cancellation count
//@ post: Some(n) <=> iteration < 200, and then n.iteration == iteration + 1 and n.cancellation_count unchanged; None <=> iteration == 200; no arithmetic overflow
#[cfg(kani)]
#[kani::proof_for_contract(IterationStamp::increment_iteration)]
fn k_stamp_2_increment_contract() {
    let s: IterationStamp = kani::any();
    let _ = s.increment_iteration();
}

//@ob id=K-STAMP-2r kind=C props=C15 fn=IterationStamp::increment_iteration
//@ pre: iteration <= 200 (every stamp a chain of increments starting at an initial stamp can reach), any cancellation count
//@ post: same statement as K-STAMP-2 as a replayable harness (bound 200 from the property text)
#[cfg_attr(kani, kani::proof)]
#[cfg_attr(salsa_verif_replay, test)]
fn k_stamp_2r_increment() {
    let i: u8 = vk::any();
    let c: u8 = vk::any();
    vk::assume(i <= BOUND);
    let s = IterationStamp::new(i, c);
    match s.increment_iteration() {
        Some(n) => {
            assert!(i < BOUND);
            assert!(n.iteration() == i + 1);
            assert!(n.cancellation_count() == c);
        }
        None => assert!(i == BOUND),
    }
    vcover!();
}

//@ob id=K-STAMP-3 kind=C props=C15,C20 fn=IterationStamp::cmp,IterationStamp::increment_iteration
//@ pre: any two stamps
//@ post: order is lexicographic (cancellation count first, then iteration); a successful increment is strictly greater and stays in the same epoch
#[cfg_attr(kani, kani::proof)]
#[cfg_attr(salsa_verif_replay, test)]
fn k_stamp_3_order() {
    let (i1, c1): (u8, u8) = (vk::any(), vk::any());
    let (i2, c2): (u8, u8) = (vk::any(), vk::any());
    let a = IterationStamp::new(i1, c1);
    let b = IterationStamp::new(i2, c2);
    assert!((a < b) == (c1 < c2 || (c1 == c2 && i1 < i2)));
    assert!((a == b) == (c1 == c2 && i1 == i2));
    if i1 <= BOUND {
        if let Some(n) = a.increment_iteration() {
            assert!(n > a);
            assert!(n.cancellation_count() == a.cancellation_count());
        }
    }
    vcover!();
}

/// The stamp (iteration, cancellation epoch).
pub(crate) fn stamp(iteration: u8, cancellation_count: u8) -> IterationStamp {
    IterationStamp::new(iteration, cancellation_count)
}
