//! Child module of `crate::interned`: staleness bookkeeping (`RevisionQueue`), the reusability
//! predicate, dependency revalidation and the reusable-slot scan, on the generic interned ingredient
//! instantiated with a one-field configuration.
use super::*;
use crate::verif_support::{self as vk, vcover};
use crate::zalsa::verif::oracle::dangling_db;

pub(crate) struct KI;
#[derive(Copy, Clone)]
pub(crate) struct KIStruct(Id);
impl FromId for KIStruct {
    fn from_id(id: Id) -> Self {
        KIStruct(id)
    }
}
impl AsId for KIStruct {
    fn as_id(&self) -> Id {
        self.0
    }
}
macro_rules! interned_config {
    ($name:ident, $revs:expr) => {
        // SAFETY: no lifetimes in fields
        unsafe impl Configuration for $name {
            const LOCATION: crate::ingredient::Location = crate::ingredient::Location { file: "", line: 0 };
            const DEBUG_NAME: &'static str = "KI";
            const PERSIST: bool = false;
            const REVISIONS: NonZeroUsize = $revs;
            type Fields<'db> = (u32,);
            type Struct<'db> = KIStruct;
            fn serialize<S>(_: &Self::Fields<'_>, _: S) -> Result<S::Ok, S::Error>
            where
                S: plumbing::serde::Serializer,
            {
                unimplemented!()
            }
            fn deserialize<'de, D>(_: D) -> Result<Self::Fields<'static>, D::Error>
            where
                D: plumbing::serde::Deserializer<'de>,
            {
                unimplemented!()
            }
        }
    };
}
interned_config!(KI, NonZeroUsize::new(2).unwrap());
pub(crate) struct KImm;
interned_config!(KImm, NonZeroUsize::MAX);

fn one() -> usize {
    1
}

/// Body of K-INT-1 for a queue of capacity `cap` in an arbitrary sorted state.
fn revision_queue_step(cap: usize) {
    let q = RevisionQueue::new(NonZeroUsize::new(cap).unwrap());
    let any_rev = || {
        let r: usize = vk::any();
        vk::assume(r >= 1);
        Revision::from(r)
    };
    // arbitrary sorted state (newest first); unrecorded entries are `start`
    let mut prev = any_rev();
    let mut olds = [Revision::start(); 3];
    let mut i = 0;
    while i < cap {
        let r = any_rev();
        vk::assume(r <= prev);
        prev = r;
        q.revisions[i].store(r);
        olds[i] = r;
        i += 1;
    }
    let r = any_rev();
    q.record(r);
    if r <= olds[0] {
        // already recorded (or older): no-op
        let mut i = 0;
        while i < cap {
            assert!(q.revisions[i].load() == olds[i]);
            i += 1;
        }
    } else {
        // a new active revision shifts the window by exactly one
        assert!(q.revisions[0].load() == r);
        let mut i = 1;
        while i < cap {
            assert!(q.revisions[i].load() == olds[i - 1]);
            i += 1;
        }
    }
    // sorted afterwards
    let mut i = 1;
    while i < cap {
        assert!(q.revisions[i - 1].load() >= q.revisions[i].load());
        i += 1;
    }
    let x = any_rev();
    let oldest = q.revisions[cap - 1].load();
    // primed <=> `cap` distinct active revisions have been recorded
    assert!(q.is_primed() == (oldest > Revision::start()));
    // stale <=> primed and last use strictly older than the oldest of the last `cap` active revisions
    assert!(q.is_stale(x) == (oldest > Revision::start() && x < oldest));
    vcover!();
    std::mem::forget(q);
}

//@ob id=K-INT-1a kind=C props=C09 fn=RevisionQueue::new,RevisionQueue::record,RevisionQueue::record_cold,RevisionQueue::is_stale,RevisionQueue::is_primed
//@ pre: capacity 1; any sorted queue state; record any revision; query any revision
//@ post: record is a no-op for revisions <= newest, else shifts the window by one; queue stays sorted; is_primed <=> full; is_stale(x) <=> full && x < oldest recorded active revision
#[cfg_attr(kani, kani::proof)]
#[cfg_attr(kani, kani::unwind(5))]
#[cfg_attr(salsa_verif_replay, test)]
fn k_int_1a_queue_cap1() {
    revision_queue_step(1)
}
//@ob id=K-INT-1b kind=C props=C09 fn=RevisionQueue::record,RevisionQueue::record_cold,RevisionQueue::is_stale,RevisionQueue::is_primed
//@ pre: capacity 2, otherwise as K-INT-1a
//@ post: as K-INT-1a
#[cfg_attr(kani, kani::proof)]
#[cfg_attr(kani, kani::unwind(5))]
#[cfg_attr(salsa_verif_replay, test)]
fn k_int_1b_queue_cap2() {
    revision_queue_step(2)
}
//@ob id=K-INT-1c kind=C props=C09 fn=RevisionQueue::record,RevisionQueue::record_cold,RevisionQueue::is_stale,RevisionQueue::is_primed
//@ pre: capacity 3 (the default), otherwise as K-INT-1a
//@ post: as K-INT-1a
#[cfg_attr(kani, kani::proof)]
#[cfg_attr(kani, kani::unwind(5))]
#[cfg_attr(salsa_verif_replay, test)]
fn k_int_1c_queue_cap3() {
    revision_queue_step(3)
}

//@ob id=K-INT-1i kind=C props=C09 fn=RevisionQueue::new,RevisionQueue::is_stale,RevisionQueue::is_primed
//@ pre: the immortal configuration (revisions = usize::MAX)
//@ post: nothing is ever stale and the queue is never primed (collection disabled)
#[cfg_attr(kani, kani::proof)]
#[cfg_attr(kani, kani::unwind(5))]
#[cfg_attr(salsa_verif_replay, test)]
fn k_int_1i_queue_immortal() {
    let q = RevisionQueue::new(NonZeroUsize::MAX);
    let r: usize = vk::any();
    vk::assume(r >= 1);
    assert!(!q.is_stale(Revision::from(r)));
    assert!(!q.is_primed());
    vcover!();
    std::mem::forget(q);
}

//@ob id=K-INT-2 kind=C props=C09 fn=is_reusable
//@ pre: all four durabilities; a collecting configuration and the immortal configuration
//@ post: reusable <=> collection not disabled && durability == LOW
#[cfg_attr(kani, kani::proof)]
#[cfg_attr(salsa_verif_replay, test)]
fn k_int_2_is_reusable() {
    let d = vk::any_durability();
    assert!(is_reusable::<KI>(d) == (d == Durability::LOW));
    assert!(!is_reusable::<KImm>(d));
    vcover!();
}

fn alloc_value(z: &Zalsa, ing: &IngredientImpl<KI>, id_gen: u32, last_interned_at: Revision, d: Durability) -> Id {
    let types = ing.memo_table_types.clone();
    let page = z.table().push_page::<Value<KI>>(ing.ingredient_index, types.clone());
    // SAFETY: unique writer
    let (id0, _) = unsafe {
        z.table().page::<Value<KI>>(page).allocate(page, |id| Value::<KI> {
            shard: 0,
            lru: LruEntry {
                link: LinkedListLink::new(),
                metadata: UnsafeCell::new(EntryMetadata { id: id.with_generation(id_gen), last_interned_at }),
            },
            fields: UnsafeCell::new((5,)),
            // SAFETY: same memo table types as the ingredient
            memos: UnsafeCell::new(unsafe { MemoTable::new(&types) }),
            durability: UnsafeCell::new(d),
        })
    }
    .ok()
    .unwrap();
    id0
}

//@ob id=K-INT-3 kind=C props=C09,C07,C01,C03 timeout=600 fn=IngredientImpl::maybe_changed_after flags=stub
//@ pre: bare Zalsa in revision 3; an interned slot whose current generation is any g_slot, last interned at revision 1; a dependency recorded on generation g_dep <= g_slot (a dependency can only name a generation that existed); `max_parallelism` stubbed to 1
//@ post: Changed <=> the slot's generation is newer than the dependency's (slot was reused) - then last_interned_at is NOT refreshed; otherwise Unchanged and last_interned_at := current revision (the value is not stale for the next `revisions` active revisions); in both cases the current revision is recorded as active
#[cfg(kani)]
#[kani::proof]
#[kani::unwind(6)]
#[kani::stub(crate::sync::max_parallelism, one)]
fn k_int_3_maybe_changed_after() {
    let mut z = crate::zalsa::verif::bare_zalsa();
    z.runtime_mut().new_revision();
    z.runtime_mut().new_revision();
    let cur = z.current_revision();
    let ing = IngredientImpl::<KI>::new(IngredientIndex::new(0));
    let slot_gen: u32 = kani::any();
    let dep_gen: u32 = kani::any();
    kani::assume(dep_gen <= slot_gen);
    let id0 = alloc_value(&z, &ing, slot_gen, Revision::start(), Durability::LOW);
    let dep = id0.with_generation(dep_gen);
    let rev = vk::any_revision();
    // SAFETY: db unused
    let r = unsafe { Ingredient::maybe_changed_after(&ing, &z, dangling_db(), dep, rev) };
    let v = z.table().get::<Value<KI>>(id0);
    // SAFETY: single threaded
    let meta = unsafe { *v.lru.metadata.get() };
    if slot_gen > dep_gen {
        assert!(!r.is_unchanged());
        assert!(meta.last_interned_at == Revision::start());
    } else {
        assert!(r.is_unchanged());
        assert!(meta.last_interned_at == cur);
    }
    assert!(meta.id == id0.with_generation(slot_gen));
    assert!(ing.revision_queue.revisions[0].load() == cur);
    kani::cover!(true, "end-of-harness reachable");
    std::mem::forget(z);
    std::mem::forget(ing);
}

//@ob id=K-INT-5 kind=B bound=one-IndexSet-insert props=C09,C01 timeout=900 fn=report_tracked_read_if_reusable
//@ pre: an active query frame; an interned value of any durability, collecting or immortal configuration; any current revision
//@ post: the query's changed_at always absorbs the current revision (ids are not stable across revisions); a dependency edge with the value's durability is recorded exactly when the slot is reusable (LOW && collecting)
#[cfg_attr(kani, kani::proof)]
#[cfg_attr(kani, kani::unwind(6))]
#[cfg_attr(salsa_verif_replay, test)]
fn k_int_5_report_read_if_reusable() {
    let local = crate::zalsa_local::verif::local_static();
    let g = local.push_query(vk::key(7, 1));
    let d = vk::any_durability();
    let cur = vk::any_revision();
    let immortal: bool = vk::any();
    let k = vk::key(0, 3);
    if immortal {
        report_tracked_read_if_reusable::<KImm>(&local, k, cur, d);
    } else {
        report_tracked_read_if_reusable::<KI>(&local, k, cur, d);
    }
    let (_, stamp) = local.active_query().unwrap();
    assert!(stamp.changed_at == cur);
    let reusable = !immortal && d == Durability::LOW;
    if reusable {
        assert!(stamp.durability == Durability::LOW);
    } else {
        assert!(stamp.durability == Durability::NEVER_CHANGE);
    }
    vcover!();
    std::mem::forget(g);
    std::mem::forget(local);
}

