//! Child module of `crate::storage`: what converting / dropping a handle does with the pages it was the unique
//! writer of (real `Storage` / `StorageHandle` around a directly constructed `Zalsa`; no jars, no condvar wait).
use super::*;
use crate::verif_support::{self as vk, vcover};
use crate::zalsa::IngredientIndex;

pub(crate) struct SDb {
    storage: Storage<SDb>,
}
// SAFETY: single-threaded harness
unsafe impl Send for SDb {}
// SAFETY: `storage` / `storage_mut` return the one field
unsafe impl HasStorage for SDb {
    fn storage(&self) -> &Storage<Self> {
        &self.storage
    }
    fn storage_mut(&mut self) -> &mut Storage<Self> {
        &mut self.storage
    }
}
impl Database for SDb {}

/// `std::sync::Arc`'s heap cell (`#[repr(C)] struct ArcInner { strong, weak, data }`), placed on the harness's
/// stack: a `Zalsa` moved to the heap by `Arc::new` becomes an untyped byte object for CBMC, and every later field
/// access through it exhausts the SAT back end's memory (measured: > 16 GB against 6 s with this cell).
#[repr(C)]
pub(crate) struct ArcCell<T> {
    strong: std::sync::atomic::AtomicUsize,
    weak: std::sync::atomic::AtomicUsize,
    data: T,
}
pub(crate) fn arc_cell<T>(data: T) -> std::mem::ManuallyDrop<ArcCell<T>> {
    std::mem::ManuallyDrop::new(ArcCell { strong: 1.into(), weak: 1.into(), data })
}

fn storage_around(cell: &ArcCell<Zalsa>) -> Storage<SDb> {
    Storage {
        handle: StorageHandle {
            // SAFETY: same layout as std's ArcInner; the count never reaches zero in a harness (the last handle is forgotten)
            zalsa_impl: unsafe { Arc::from_raw(&cell.data) },
            coordinate: CoordinateDrop(Arc::new(Coordinate { clones: Mutex::new(1), cvar: Default::default() })),
            phantom: PhantomData,
        },
        zalsa_local: ZalsaLocal::new(),
    }
}

fn recycles_once(convert: bool) {
    use crate::table::verif::{page_index, take_recycled};
    let cell = arc_cell(crate::zalsa::verif::bare_zalsa());
    let mut storage = storage_around(&cell);
    let (i0, i1) = (IngredientIndex::new(0), IngredientIndex::new(1));
    let n0: usize = vk::any();
    vk::assume(n0 < 64);
    crate::zalsa_local::verif::remember_page(&mut storage.zalsa_local, i0, page_index(n0));
    let handle = if convert {
        storage.into_zalsa_handle()
    } else {
        let keep = storage.handle.clone();
        drop(storage);
        keep
    };
    assert!(*handle.coordinate.clones.lock() == 1);
    assert!(Arc::strong_count(&handle.zalsa_impl) == 1);
    let t = handle.zalsa_impl.table();
    assert!(take_recycled(t, i1).is_none());
    let a = take_recycled(t, i0);
    assert!(a.map(|p| p.as_usize()) == Some(n0));
    assert!(take_recycled(t, i0).is_none());
    vcover!();
    std::mem::forget(handle);
}

//@ob id=K-ST-2a kind=C props=C24 timeout=900 fn=Storage::into_zalsa_handle,ZalsaLocal::record_unfilled_pages,Table::record_unfilled_page,Table::take_non_full_page
//@ pre: a handle that is the unique writer of an unfilled page (any page number) of an ingredient is converted with `into_zalsa_handle` (the table lives on through the returned handle)
//@ post: whatever the conversion does with the pieces of the `Storage` (forgetting it, dropping it, cloning the handle), the page ends up in the table's pool **exactly once** and the handle count is back at 1: the next handle asking for a page of that ingredient gets it, the one after that gets none - two later handles never both become the page's "unique" writer
#[cfg_attr(kani, kani::proof)]
#[cfg_attr(kani, kani::unwind(5))]
#[cfg_attr(salsa_verif_replay, test)]
fn k_st_2a_a_converted_handle_recycles_its_page_once() {
    recycles_once(true);
}

//@ob id=K-ST-2b kind=C props=C24 timeout=900 fn=Storage::drop,StorageHandle::clone,CoordinateDrop::drop,ZalsaLocal::record_unfilled_pages,Table::record_unfilled_page,Table::take_non_full_page
//@ pre: as K-ST-2a, but the handle is simply dropped while a clone of it keeps the table alive
//@ post: as K-ST-2a
#[cfg_attr(kani, kani::proof)]
#[cfg_attr(kani, kani::unwind(5))]
#[cfg_attr(salsa_verif_replay, test)]
fn k_st_2b_a_dropped_handle_recycles_its_page_once() {
    recycles_once(false);
}


//@ob id=K-ST-1 kind=C props=C20 timeout=1200 fn=Storage::cancel_others,CancellationFlagGuard::new,CancellationFlagGuard::drop,Runtime::bump_cancellation_count,Zalsa::new_revision
//@ pre: a database with a single handle (nothing to wait for), at any cancellation count 0..=255 of the current revision; a write / trigger_cancellation / LRU change asks for exclusive access
//@ post: exclusive access is granted without blocking, the cancellation flag is clear again afterwards, and **a new cancellation epoch has begun**: the count is one higher, or - at 255 - a new revision has started with count 0.  (Every request for exclusive access starts a new epoch whether or not anybody had to be waited for: a reader may have dropped its handle between being told to cancel and the writer's check, and what it abandoned must not count as current.)
#[cfg_attr(kani, kani::proof)]
#[cfg_attr(kani, kani::unwind(4))]
#[cfg_attr(salsa_verif_replay, test)]
fn k_st_1_exclusive_access_starts_a_new_epoch() {
    let mut cell = arc_cell(crate::zalsa::verif::bare_zalsa());
    let n: u8 = vk::any();
    crate::runtime::verif::set_cancellation_count(cell.data.runtime_mut(), n);
    let mut storage = storage_around(&cell);
    let rev0 = storage.handle.zalsa_impl.current_revision();
    let z = storage.cancel_others();
    let (rev1, n1) = (z.current_revision(), z.runtime().cancellation_count());
    if n == u8::MAX {
        assert!(rev1 == rev0.next() && n1 == 0);
    } else {
        assert!(rev1 == rev0 && n1 == n + 1);
    }
    assert!(!z.runtime().load_cancellation_flag());
    vcover!(n == u8::MAX, "overflow case reachable");
    vcover!(n < u8::MAX, "ordinary case reachable");
    std::mem::forget(storage);
}
