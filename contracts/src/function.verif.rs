//! Child module of `crate::function`: **modular obligations on the generic function ingredient**
//! (`fetch`, `refresh_memo`, `fetch_hot`, `fetch_cold`, `maybe_changed_after`, `maybe_changed_after_cold`).
//!
//! Running the generic engine end to end does not finish under CBMC (DESIGN.md 13; the attempts are in
//! docs/attempts/).  So the glue functions are verified the way a deductive verifier works anyway: one
//! function at a time, **against the contracts of their callees**.  Per harness, these callees are
//! replaced by stubs that implement exactly the stated contract and record how they were called:
//!
//!   `SyncTable::try_claim`                    -> grants the claim for the requested key (counts claims)
//!   `ClaimGuard::drop_impl`                   -> counts the release; nobody is waiting
//!   `IngredientImpl::get_memo_from_table_for` -> the harness' current memo for the key (or none)
//!   `MemoSlot::get_erased`                    -> the same memo, type-erased
//!   `MemoHeader::verify_memo`                 -> nondeterministic verdict `b`; on `true` the memo is marked
//!                                                verified in the current revision and its
//!                                                "inputs have accumulated values" flag is refreshed to an
//!                                                arbitrary value; on `false` the memo is untouched
//!                                                (contract discharged separately: K-MCA-1, K-MCA-4, K-MCA-3*)
//!   `IngredientImpl::execute`                 -> records its arguments, releases the claim, returns a
//!                                                harness-prepared memo that is verified in the current
//!                                                revision and final (assumed contract of `execute`)
//! Real code under check: the glue itself plus `fetch_hot`, `maybe_changed_after_hot`,
//! `shallow_verify_memo`, `update_shallow`, `VerifyResult::unchanged_for_memo`, `report_tracked_read`.
use super::*;
use crate::accumulator::accumulated_map::InputAccumulatedValues;
use crate::function::memo::MemoHeader;
use crate::verif_support::{self as vk, vcover};
use crate::zalsa::ZalsaDatabase;
use crate::zalsa_local::ZalsaLocal;
use crate::{Database, Durability};

/// A database handle over a bare `Zalsa`: no `Storage`, no clones.
pub(crate) struct HDb {
    pub zalsa: Zalsa,
    pub local: ZalsaLocal,
}
// SAFETY: single-threaded harness.
unsafe impl Send for HDb {}
// SAFETY: `zalsa`/`zalsa_local` always return the same objects.
unsafe impl ZalsaDatabase for HDb {
    fn zalsa(&self) -> &Zalsa {
        &self.zalsa
    }
    fn zalsa_mut(&mut self) -> &mut Zalsa {
        &mut self.zalsa
    }
    fn zalsa_local(&self) -> &ZalsaLocal {
        &self.local
    }
}
impl Database for HDb {}

#[derive(Copy, Clone)]
pub(crate) struct GKey(Id);
impl crate::plumbing::FromId for GKey {
    fn from_id(id: Id) -> Self {
        GKey(id)
    }
}
impl crate::plumbing::AsId for GKey {
    fn as_id(&self) -> Id {
        self.0
    }
}
impl crate::salsa_struct::SalsaStructInDb for GKey {
    type MemoIngredientMap = crate::memo_ingredient_indices::MemoIngredientSingletonIndex;
    const LEAF_TYPE_IDS: &'static [typeid::ConstTypeId] = &[typeid::ConstTypeId::of::<GKey>()];
    fn lookup_ingredient_index(_: &Zalsa) -> crate::memo_ingredient_indices::IngredientIndices {
        IngredientIndex::new(9).into()
    }
    fn entries(_: &Zalsa) -> impl Iterator<Item = DatabaseKeyIndex> + '_ {
        std::iter::empty()
    }
    fn cast(id: Id, _: std::any::TypeId) -> Option<Self> {
        Some(GKey(id))
    }
    unsafe fn memo_table(_: &Zalsa, _: Id, _: Revision) -> crate::table::memo::MemoTableWithTypes<'_> {
        // SAFETY: single-threaded harness
        match unsafe { REAL_TABLE } {
            // SAFETY: `memos` was created for `types`
            Some((types, memos)) => unsafe { types.attach_memos(memos) },
            None => crate::table::memo::verif::dummy_table(),
        }
    }
}

pub(crate) struct CGen;
// SAFETY: `u32` output.
unsafe impl Configuration for CGen {
    const DEBUG_NAME: &'static str = "gen";
    const LOCATION: crate::ingredient::Location = crate::ingredient::Location { file: "", line: 0 };
    const PERSIST: bool = false;
    type DbView = HDb;
    type SalsaStruct<'db> = GKey;
    type Input<'db> = GKey;
    type Output<'db> = u32;
    type Eviction = NoopEviction;
    const CYCLE_STRATEGY: CycleRecoveryStrategy = CycleRecoveryStrategy::Panic;
    fn values_equal<'db>(a: &u32, b: &u32) -> bool {
        a == b
    }
    fn id_to_input(_: &Zalsa, key: Id) -> GKey {
        GKey(key)
    }
    fn execute<'db>(_: &'db HDb, _: GKey) -> u32 {
        unreachable!("the user function is behind the stubbed `execute`")
    }
    fn cycle_initial<'db>(_: &'db HDb, _: Id, _: GKey) -> u32 {
        unreachable!()
    }
    fn recover_from_cycle<'db>(_: &'db HDb, _: &Cycle, _: &u32, v: u32, _: GKey) -> u32 {
        v
    }
    fn serialize<S>(_: &u32, _: S) -> Result<S::Ok, S::Error>
    where
        S: plumbing::serde::Serializer,
    {
        unimplemented!()
    }
    fn deserialize<'de, D>(_: D) -> Result<u32, D::Error>
    where
        D: plumbing::serde::Deserializer<'de>,
    {
        unimplemented!()
    }
}

/// `FunctionIngredientRef::new` for harness ingredients.
pub(crate) fn fn_ref<'a>(x: &'a dyn FunctionIngredient) -> FunctionIngredientRef<'a> {
    FunctionIngredientRef::new(x)
}

/// A real one-slot memo table for the key, for the harnesses that do **not** stub the memo accessors.
pub(crate) static mut REAL_TABLE: Option<(&'static crate::table::memo::MemoTableTypes, &'static crate::table::memo::MemoTable)> = None;
pub(crate) fn install_real_table() {
    install_real_table_for::<CGen>()
}
pub(crate) fn install_real_table_for<C: Configuration>() {
    let (types, memos) = crate::table::memo::verif::standalone::<Memo<C>>();
    // SAFETY: single-threaded harness
    unsafe { REAL_TABLE = Some((Box::leak(Box::new(types)), Box::leak(Box::new(memos)))) };
}
/// Store `m` in the real table (what `insert_memo` does, minus the deferred-free list).
pub(crate) fn store_real(m: &'static Memo<CGen>) {
    store_real_for::<CGen>(m)
}
pub(crate) fn store_real_for<C: Configuration>(m: &'static Memo<C>) {
    // SAFETY: single-threaded harness
    let (types, memos) = unsafe { REAL_TABLE }.unwrap();
    // SAFETY: `memos` was created for `types`
    let _ = unsafe { types.attach_memos(memos) }.insert(MemoIngredientIndex::from_usize(0), std::ptr::NonNull::from(m));
}
/// `execute` stand-in for the real-table harnesses: like `stub_execute`, and stores its result in the table.
pub(crate) fn stub_execute_real<'db, C: Configuration>(
    _this: &'db IngredientImpl<C>,
    _db: &'db C::DbView,
    claim_guard: ClaimGuard<'db>,
    opt_old_memo: Option<&'db Memo<C>>,
) -> Option<&'db Memo<C>> {
    // SAFETY: single-threaded harness; EXEC_RESULT was set by the harness to a leaked `Memo<CGen>`
    unsafe {
        EXEC_CALLS += 1;
        EXEC_OLD = match opt_old_memo {
            Some(m) => m as *const Memo<C> as usize,
            None => 0,
        };
        let _ = claim_guard.drop();
        store_real_for::<C>(&*(EXEC_RESULT as *const Memo<C>));
        Some(&*(EXEC_RESULT as *const Memo<C>))
    }
}

// ---- harness state shared with the stubs ---------------------------------------------------------
/// address of the memo currently stored for the key (0 = none)
pub(crate) static mut CUR_MEMO: usize = 0;
pub(crate) static mut EXEC_CALLS: u32 = 0;
/// address of the old memo handed to `execute` (0 = `None`)
pub(crate) static mut EXEC_OLD: usize = 0;
/// the memo `execute` returns (it also becomes the stored memo, as `insert_memo` would make it)
pub(crate) static mut EXEC_RESULT: usize = 0;
pub(crate) static mut VERIFY_CALLS: u32 = 0;
/// the verdict the stubbed `verify_memo` gave
pub(crate) static mut VERIFY_VERDICT: bool = false;

pub(crate) fn stub_get_memo<'db, C: Configuration>(_this: &IngredientImpl<C>, _zalsa: &'db Zalsa, _id: Id, _mi: MemoIngredientIndex) -> Option<&'db Memo<C>> {
    // SAFETY: single-threaded harness; CUR_MEMO is 0 or a leaked `Memo<C>`
    unsafe {
        if CUR_MEMO == 0 {
            None
        } else {
            Some(&*(CUR_MEMO as *const Memo<C>))
        }
    }
}
/// As `stub_get_memo`, with the stored memo kept as a *pointer* (`CUR_MEMO_P`): a reference made from an integer
/// is an unresolved object for CBMC, and slices read through it (`tracked_struct_ids()`) come back with symbolic
/// lengths.
pub(crate) static mut CUR_MEMO_P: *const () = std::ptr::null();
pub(crate) fn stub_get_memo_p<'db, C: Configuration>(_this: &IngredientImpl<C>, _zalsa: &'db Zalsa, _id: Id, _mi: MemoIngredientIndex) -> Option<&'db Memo<C>> {
    // SAFETY: single-threaded harness; CUR_MEMO_P is null or a leaked `Memo<C>`
    unsafe {
        if CUR_MEMO_P.is_null() {
            None
        } else {
            Some(&*(CUR_MEMO_P as *const Memo<C>))
        }
    }
}
pub(crate) fn stub_execute<'db, C: Configuration>(
    _this: &'db IngredientImpl<C>,
    _db: &'db C::DbView,
    claim_guard: ClaimGuard<'db>,
    opt_old_memo: Option<&'db Memo<C>>,
) -> Option<&'db Memo<C>> {
    // SAFETY: single-threaded harness; EXEC_RESULT was set by the harness to a leaked `Memo<C>`
    unsafe {
        EXEC_CALLS += 1;
        EXEC_OLD = match opt_old_memo {
            Some(m) => m as *const Memo<C> as usize,
            None => 0,
        };
        let _ = claim_guard.drop();
        CUR_MEMO = EXEC_RESULT;
        Some(&*(EXEC_RESULT as *const Memo<C>))
    }
}
impl MemoHeader {
    /// Stand-in for `verify_memo` stating its contract (see module comment).
    pub(crate) fn verif_verify_memo(
        &self,
        _db: crate::database::RawDatabase<'_>,
        claim_guard: &ClaimGuard<'_>,
        _cycle_recovery_strategy: CycleRecoveryStrategy,
    ) -> bool {
        let b: bool = vk::any();
        // SAFETY: single-threaded harness
        unsafe {
            VERIFY_CALLS += 1;
            VERIFY_VERDICT = b;
        }
        if b {
            self.verified_at.store(claim_guard.zalsa().current_revision());
            let acc: bool = vk::any();
            self.revisions.accumulated_inputs.store(if acc { InputAccumulatedValues::Any } else { InputAccumulatedValues::Empty });
        }
        b
    }
}

pub(crate) struct World {
    pub db: HDb,
    pub ing: IngredientImpl<CGen>,
    pub id: Id,
    pub cur: Revision,
}
/// The current revision of the last `world()` (for stubs that have no access to the database).
pub(crate) static mut WORLD_CUR: usize = 1;
pub(crate) fn current_revision_of_world() -> Revision {
    // SAFETY: single-threaded harness
    Revision::from(unsafe { WORLD_CUR })
}
/// Bare `Zalsa` with an arbitrary monotone revision vector and one generic function ingredient.
pub(crate) fn world() -> World {
    let mut z = crate::zalsa::verif::bare_zalsa();
    let (r0, r1, r2) = (vk::any_revision(), vk::any_revision(), vk::any_revision());
    vk::assume(r0 >= r1 && r1 >= r2);
    crate::runtime::verif::set_revs(z.runtime_mut(), [r0, r1, r2]);
    let ing = IngredientImpl::<CGen>::new(IngredientIndex::new(2), crate::memo_ingredient_indices::verif::singleton(0), 0);
    // SAFETY: small index
    let id = unsafe { Id::from_index(7) };
    // SAFETY: single-threaded harness
    unsafe { WORLD_CUR = r0.as_usize() };
    World { db: HDb { zalsa: z, local: crate::zalsa_local::verif::local_static() }, ing, id, cur: r0 }
}
/// A final, fully tracked derived memo without edges (the dependencies are behind the stubbed `verify_memo`).
pub(crate) fn memo(value: Option<u32>, verified_at: Revision, d: Durability, changed_at: Revision) -> &'static Memo<CGen> {
    let m = Memo::<CGen>::new(value, verified_at, crate::zalsa_local::verif::revs(d, changed_at, true, crate::zalsa_local::verif::empty_derived()));
    Box::leak(Box::new(m))
}
/// As `memo`, fully tracked or untracked.
pub(crate) fn memo_kind(value: Option<u32>, verified_at: Revision, d: Durability, changed_at: Revision, untracked: bool) -> &'static Memo<CGen> {
    let origin = if untracked {
        crate::zalsa_local::OriginAndExtra::derived_untracked(std::iter::empty(), Default::default())
    } else {
        crate::zalsa_local::verif::empty_derived()
    };
    Box::leak(Box::new(Memo::<CGen>::new(value, verified_at, crate::zalsa_local::verif::revs(d, changed_at, true, origin))))
}
fn addr(m: &Memo<CGen>) -> usize {
    m as *const Memo<CGen> as usize
}
fn acc_of(r: &VerifyResult) -> Option<bool> {
    match r {
        VerifyResult::Changed => None,
        VerifyResult::Unchanged { accumulated } => Some(accumulated.is_any()),
    }
}

//@off(superseded-by-G-MCA-2) id=G-MCA-1 kind=C props=C01,C03,C04,C11 timeout=1800 fn=IngredientImpl::maybe_changed_after,IngredientImpl::maybe_changed_after_cold,MemoHeader::maybe_changed_after_hot,MemoHeader::shallow_verify_memo,MemoHeader::update_shallow,VerifyResult::unchanged_for_memo flags=stubs,noreplay
//@ pre: any monotone revision vector; the key has no memo, or a final derived memo with any value presence (Some / evicted), any durability, verified at any revision <= current, changed_at <= verified_at; `verify_memo` (stub, contract above) gives any verdict; `execute` (stub) returns a memo verified now with any changed_at <= current; any query revision `rev` <= current
//@ post: Unchanged <=> the memo that is valid at the end (the stored one if it verified, else the re-executed one) has changed_at <= rev - after a re-execution it is the **new** memo's changed_at that is compared with the caller's revision [C01, C04]; nothing else yields Changed [C03]; no memo => Changed
//@ post: an Unchanged answer carries the memo's accumulated-inputs flag **as it is after verification** [C11]
//@ post: `execute` runs at most once and gets the stored memo as old memo; a memo that is neither verified nor re-executed (the code does this for an evicted value) is reported Changed; every granted claim is released exactly once
#[cfg(kani)]
#[kani::proof]
#[kani::unwind(4)]
#[kani::stub(crate::sync::max_parallelism, crate::verif_support::one_core)]
#[kani::stub(crate::function::sync::SyncTable::try_claim, crate::function::sync::verif::stub_try_claim)]
#[kani::stub(crate::function::sync::ClaimGuard::drop_impl, crate::function::sync::ClaimGuard::verif_release)]
#[kani::stub(crate::function::IngredientImpl::get_memo_from_table_for, stub_get_memo)]
#[kani::stub(crate::table::memo::MemoSlot::get_erased, crate::table::memo::MemoSlot::verif_get_erased)]
#[kani::stub(crate::function::memo::MemoHeader::verify_memo, crate::function::memo::MemoHeader::verif_verify_memo)]
#[kani::stub(crate::function::IngredientImpl::execute, stub_execute)]
fn g_mca_1_maybe_changed_after() {
    let w = world();
    let cur = w.cur;
    let stored: bool = vk::any();
    let has_value: bool = vk::any();
    let (va, ca) = (vk::any_revision(), vk::any_revision());
    vk::assume(ca <= va && va <= cur);
    let d = vk::any_durability();
    let old = memo(if has_value { Some(11) } else { None }, va, d, ca);
    let nca = vk::any_revision();
    vk::assume(nca <= cur);
    let new = memo(Some(12), cur, d, nca);
    // SAFETY: single-threaded harness
    unsafe {
        CUR_MEMO = if stored { addr(old) } else { 0 };
        EXEC_RESULT = addr(new);
    }
    let rev = vk::any_revision();
    vk::assume(rev <= cur);
    let res = w.ing.maybe_changed_after(&w.db, w.id, rev);
    // SAFETY: single-threaded harness
    let (calls, old_seen, claims, releases) = unsafe { (EXEC_CALLS, EXEC_OLD, crate::function::sync::verif::CLAIMS, crate::function::sync::verif::RELEASES) };
    assert!(calls <= 1);
    assert!(claims == releases);
    if !stored {
        assert!(!res.is_unchanged() && calls == 0);
    } else if calls == 1 {
        assert!(old_seen == addr(old));
        assert!(res.is_unchanged() == (nca <= rev));
    } else if old.header.verified_at.load() == cur {
        // the stored memo is valid in the current revision (it was, or verification just said so)
        assert!(res.is_unchanged() == (ca <= rev));
        if let Some(acc) = acc_of(&res) {
            assert!(acc == old.header.revisions.accumulated_inputs.load().is_any());
        }
    } else {
        // neither verified nor re-executed: the answer must be Changed (what the code does for an evicted value)
        assert!(!res.is_unchanged());
    }
    vcover!(calls == 1, "re-execution path reachable");
    vcover!(stored && calls == 0 && res.is_unchanged(), "verified-unchanged path reachable");
    vcover!();
    std::mem::forget(w);
}

//@off(superseded-by-G-FETCH-2) id=G-FETCH-1 kind=C props=C01,C03,C05,C06 timeout=1800 fn=IngredientImpl::fetch,IngredientImpl::refresh_memo,IngredientImpl::fetch_hot,IngredientImpl::fetch_cold,MemoHeader::shallow_verify_memo,MemoHeader::update_shallow flags=stubs,noreplay
//@ pre: as G-MCA-1 (no memo / memo with value / memo whose value was evicted; any stamps; any verification verdict)
//@ post: the stored value is returned iff the stored memo has a value and is valid in the current revision afterwards; otherwise the body runs (once) and its result is returned [C01, C03]
//@ post: `execute` receives the stored memo as old memo **whenever one is stored - also when its value was evicted**: the dependency and output bookkeeping of an evicted result is what the re-execution is diffed against [C05, C06]
//@ post: every granted claim is released exactly once [C17]
#[cfg(kani)]
#[kani::proof]
#[kani::unwind(4)]
#[kani::stub(crate::sync::max_parallelism, crate::verif_support::one_core)]
#[kani::stub(crate::function::sync::SyncTable::try_claim, crate::function::sync::verif::stub_try_claim)]
#[kani::stub(crate::function::sync::ClaimGuard::drop_impl, crate::function::sync::ClaimGuard::verif_release)]
#[kani::stub(crate::function::IngredientImpl::get_memo_from_table_for, stub_get_memo)]
#[kani::stub(crate::table::memo::MemoSlot::get_erased, crate::table::memo::MemoSlot::verif_get_erased)]
#[kani::stub(crate::function::memo::MemoHeader::verify_memo, crate::function::memo::MemoHeader::verif_verify_memo)]
#[kani::stub(crate::function::IngredientImpl::execute, stub_execute)]
fn g_fetch_1_fetch() {
    let w = world();
    let cur = w.cur;
    let stored: bool = vk::any();
    let has_value: bool = vk::any();
    let (va, ca) = (vk::any_revision(), vk::any_revision());
    vk::assume(ca <= va && va <= cur);
    let d = vk::any_durability();
    let old = memo(if has_value { Some(11) } else { None }, va, d, ca);
    let new = memo(Some(12), cur, d, cur);
    // SAFETY: single-threaded harness
    unsafe {
        CUR_MEMO = if stored { addr(old) } else { 0 };
        EXEC_RESULT = addr(new);
    }
    let (z, l) = w.db.zalsas();
    let v = *w.ing.fetch(&w.db, z, l, w.id);
    // SAFETY: single-threaded harness
    let (calls, old_seen, claims, releases, vcalls) = unsafe { (EXEC_CALLS, EXEC_OLD, crate::function::sync::verif::CLAIMS, crate::function::sync::verif::RELEASES, VERIFY_CALLS) };
    assert!(calls <= 1);
    assert!(claims == releases);
    if calls == 1 {
        assert!(v == 12);
        assert!(old_seen == if stored { addr(old) } else { 0 });
        assert!(!(stored && has_value && old.header.verified_at.load() == cur));
    } else {
        assert!(stored && has_value && v == 11);
        assert!(old.header.verified_at.load() == cur);
    }
    let _ = vcalls;
    vcover!(calls == 1 && stored && !has_value, "an evicted value re-executes with its old memo");
    vcover!(calls == 0, "reuse path reachable");
    vcover!();
    std::mem::forget(w);
}

// =============================================================================================
// More stubs for the remaining glue functions
// =============================================================================================
/// What the stubbed `insert_memo` was given (recorded field by field while the memo is a typed local:
/// reading it back through an integer-to-pointer cast makes CBMC run out of memory).
#[derive(Copy, Clone)]
pub(crate) struct Inserted {
    pub calls: u32,
    pub addr: usize,
    pub value: Option<u32>,
    pub verified_at: usize,
    pub changed_at: usize,
    pub durability: u8,
    pub provisional: bool,
    /// 0 derived, 1 derived-untracked, 2 assigned
    pub origin_kind: u8,
    pub assigned_by: Option<DatabaseKeyIndex>,
    pub epoch: u8,
}
pub(crate) static mut INS: Inserted = Inserted { calls: 0, addr: 0, value: None, verified_at: 0, changed_at: 0, durability: 0, provisional: false, origin_kind: 0, assigned_by: None, epoch: 0 };
pub(crate) fn stub_insert_memo<'db, C: Configuration>(_this: &'db IngredientImpl<C>, _zalsa: &'db Zalsa, _id: Id, memo: memo::Memo<C>, _mi: MemoIngredientIndex) -> &'db memo::Memo<C> {
    let (kind, by) = match memo.header.origin() {
        crate::zalsa_local::QueryOriginRef::Derived(_) => (0, None),
        crate::zalsa_local::QueryOriginRef::DerivedUntracked(_) => (1, None),
        crate::zalsa_local::QueryOriginRef::Assigned(k) => (2, Some(k)),
    };
    // SAFETY: every harness configuration has `Output = u32`
    let value = unsafe { *(&memo.value as *const Option<C::Output<'static>> as *const Option<u32>) };
    let rec = Inserted {
        calls: 0,
        addr: 0,
        value,
        verified_at: memo.header.verified_at.load().as_usize(),
        changed_at: memo.header.revisions.changed_at.as_usize(),
        durability: memo.header.revisions.durability.index() as u8,
        provisional: memo.header.may_be_provisional(),
        origin_kind: kind,
        assigned_by: by,
        epoch: memo.header.revisions.iteration().cancellation_count(),
    };
    let m: &'static memo::Memo<C> = Box::leak(Box::new(memo));
    // SAFETY: single-threaded harness
    unsafe {
        let calls = INS.calls + 1;
        INS = rec;
        INS.calls = calls;
        INS.addr = m as *const memo::Memo<C> as usize;
        CUR_MEMO = INS.addr;
    }
    m
}
/// address of the memo header `diff_outputs` was called on (0 = not called)
pub(crate) static mut DIFFED: usize = 0;
impl MemoHeader {
    pub(crate) fn verif_diff_outputs(&self, _zalsa: &Zalsa, _key: DatabaseKeyIndex, _completed_query: &crate::active_query::CompletedQuery) {
        // SAFETY: single-threaded harness
        unsafe { DIFFED = self as *const MemoHeader as usize };
    }
}
/// Whether the harness allows `Cancelled::throw` at this point, and which variant was thrown.
pub(crate) static mut THROW_ALLOWED: bool = false;
#[cfg(kani)]
pub(crate) fn stub_throw(c: crate::Cancelled) -> ! {
    // SAFETY: single-threaded harness
    assert!(unsafe { THROW_ALLOWED }, "cancellation/propagated panic thrown where the property forbids it");
    assert!(matches!(c, crate::Cancelled::PropagatedPanic));
    kani::cover!(true, "throw path reachable");
    kani::assume(false);
    loop {}
}

impl crate::tracked_struct::TrackedStructInDb for GKey {
    fn database_key_index(_: &Zalsa, id: Id) -> DatabaseKeyIndex {
        DatabaseKeyIndex::new(IngredientIndex::new(9), id)
    }
}

//@ob id=G-SPEC-1 kind=C props=C10,C01 timeout=1800 fn=IngredientImpl::specify_and_record,ZalsaLocal::active_query_with_cycle_heads,ZalsaLocal::is_tracked_struct_of_active_query,ZalsaLocal::add_output flags=stubs,noreplay
//@ pre: a creator query that is not part of a cycle is executing (real query stack) with any stamp (durability, changed_at <= current) and owns the struct `key` (real identity map); the key has no memo yet (the case with an older memo exhausts CBMC's memory and is not covered); it calls specify(key, v)
//@ post: exactly one memo is stored; it holds v, is verified in the **current revision** (so a request later in this revision returns it without running the body), has origin Assigned(creator), is not more durable than the creator and not marked as changed earlier than what the creator had read (unless backdated to the old memo's changed_at); it is final (no cycle)
//@ post: the claim is released (that the specified function is also recorded as an output edge of the creator is *not* checked here: reading the edge set back exhausts CBMC's memory)
#[cfg(kani)]
#[kani::proof]
#[kani::unwind(5)]
#[kani::stub(crate::sync::max_parallelism, crate::verif_support::one_core)]
#[kani::stub(crate::function::sync::SyncTable::try_claim, crate::function::sync::verif::stub_try_claim)]
#[kani::stub(crate::function::sync::ClaimGuard::drop_impl, crate::function::sync::ClaimGuard::verif_release)]
#[kani::stub(crate::function::IngredientImpl::get_memo_from_table_for, stub_get_memo)]
#[kani::stub(crate::function::IngredientImpl::insert_memo, stub_insert_memo)]
#[kani::stub(crate::function::memo::MemoHeader::diff_outputs, crate::function::memo::MemoHeader::verif_diff_outputs)]
#[kani::stub(crate::zalsa_local::ZalsaLocal::active_query_with_cycle_heads, crate::zalsa_local::ZalsaLocal::verif_active_query_no_cycle)]
fn g_spec_1_specify_and_record() {
    let w = world();
    let cur = w.cur;
    let (z, l) = w.db.zalsas();
    let creator = vk::key(5, 3);
    let frame = l.push_query(creator);
    // the creator read something: any stamp
    let (cd, cc) = (vk::any_durability(), vk::any_revision());
    vk::assume(cc <= cur);
    crate::zalsa_local::verif::set_top_stamp(l, cd, cc);
    let (_, stamp) = l.active_query().unwrap();
    // the creator created the struct `key` in this execution
    let entity = <GKey as crate::tracked_struct::TrackedStructInDb>::database_key_index(z, w.id);
    l.store_tracked_struct_id(crate::tracked_struct::verif::identity(9, 77, 0), w.id);
    // an optional memo from an earlier revision
    let stored: bool = false;
    let (va, ca) = (vk::any_revision(), vk::any_revision());
    vk::assume(ca <= va && va < cur);
    let od = vk::any_durability();
    let old_value: Option<u32> = if vk::any() { Some(vk::any()) } else { None };
    let old = memo(old_value, va, od, ca);
    // SAFETY: single-threaded harness
    unsafe { CUR_MEMO = if stored { addr(old) } else { 0 } };
    let v: u32 = vk::any();
    w.ing.specify_and_record(&w.db, w.id, v);
    // SAFETY: single-threaded harness
    let (ins, diffed, claims, releases) = unsafe { (INS, DIFFED, crate::function::sync::verif::CLAIMS, crate::function::sync::verif::RELEASES) };
    assert!(ins.calls == 1);
    assert!(ins.value == Some(v));
    assert!(ins.verified_at == cur.as_usize());
    assert!(ins.origin_kind == 2 && ins.assigned_by == Some(creator));
    // sound directions: never more durable than the creator, never "changed" earlier than what the creator read
    assert!(ins.durability <= stamp.durability.index() as u8);
    let backdated = stored && old_value == Some(v);
    if !backdated {
        assert!(ins.changed_at >= stamp.changed_at.as_usize() && ins.changed_at <= cur.as_usize());
    } else {
        assert!(ins.changed_at >= ca.as_usize() && ins.changed_at <= cur.as_usize());
    }
    assert!(!ins.provisional);
    assert!(diffed == if stored { &old.header as *const MemoHeader as usize } else { 0 });
    assert!(claims == 1 && releases == 1);
    vcover!();
    std::mem::forget(frame);
    std::mem::forget(w);
}

//@ob id=G-SPEC-2 kind=C props=C10,C01 timeout=1800 fn=IngredientImpl::specify_and_record,ZalsaLocal::active_query_with_cycle_heads,ZalsaLocal::is_tracked_struct_of_active_query,ZalsaLocal::add_output flags=stubs,noreplay
//@ pre: a creator query that is not part of a cycle is executing (real query stack) with any stamp (durability, changed_at <= current) and owns the struct `key` (real identity map); the key has a final memo from an **earlier revision** (any value or evicted, any durability; when the value is unchanged its changed_at is not later than what the creator has read - salsa panics on that in debug builds as a query bug); the creator calls specify(key, v)
//@ post: exactly one memo is stored; it holds v, is verified in the **current revision** (so a request later in this revision returns it without running the body), has origin Assigned(creator), is not more durable than the creator and not marked as changed earlier than what the creator had read (unless backdated to the old memo's changed_at); it is final (no cycle)
//@ post: changed_at is the old memo's **iff** the value is unchanged and the new result is not less durable (backdating, C03), the creator's otherwise; the old memo goes to diff_outputs; the specified function is recorded as an output edge of the creator; the claim is released
#[cfg(kani)]
#[kani::proof]
#[kani::unwind(5)]
#[kani::stub(crate::sync::max_parallelism, crate::verif_support::one_core)]
#[kani::stub(crate::function::sync::SyncTable::try_claim, crate::function::sync::verif::stub_try_claim)]
#[kani::stub(crate::function::sync::ClaimGuard::drop_impl, crate::function::sync::ClaimGuard::verif_release)]
#[kani::stub(crate::function::IngredientImpl::get_memo_from_table_for, stub_get_memo_p)]
#[kani::stub(crate::function::IngredientImpl::insert_memo, stub_insert_memo)]
#[kani::stub(crate::function::memo::MemoHeader::diff_outputs, crate::function::memo::MemoHeader::verif_diff_outputs)]
#[kani::stub(crate::zalsa_local::ZalsaLocal::active_query_with_cycle_heads, crate::zalsa_local::ZalsaLocal::verif_active_query_no_cycle)]
fn g_spec_2_specify_over_an_older_memo() {
    let w = world();
    let cur = w.cur;
    let (z, l) = w.db.zalsas();
    let creator = vk::key(5, 3);
    let frame = l.push_query(creator);
    // the creator read something: any stamp
    let (cd, cc) = (vk::any_durability(), vk::any_revision());
    vk::assume(cc <= cur);
    crate::zalsa_local::verif::set_top_stamp(l, cd, cc);
    let (_, stamp) = l.active_query().unwrap();
    // the creator created the struct `key` in this execution
    let entity = <GKey as crate::tracked_struct::TrackedStructInDb>::database_key_index(z, w.id);
    l.store_tracked_struct_id(crate::tracked_struct::verif::identity(9, 77, 0), w.id);
    // an optional memo from an earlier revision
    let stored: bool = true;
    let (va, ca) = (vk::any_revision(), vk::any_revision());
    vk::assume(ca <= va && va < cur);
    let od = vk::any_durability();
    let old_value: Option<u32> = if vk::any() { Some(vk::any()) } else { None };
    let old = memo(old_value, va, od, ca);
    // SAFETY: single-threaded harness
    unsafe { CUR_MEMO_P = if stored { old as *const Memo<CGen> as *const () } else { std::ptr::null() } };
    let v: u32 = vk::any();
    vk::assume(!(old_value == Some(v) && cd >= od) || ca <= cc);
    w.ing.specify_and_record(&w.db, w.id, v);
    // SAFETY: single-threaded harness
    let (ins, diffed, claims, releases) = unsafe { (INS, DIFFED, crate::function::sync::verif::CLAIMS, crate::function::sync::verif::RELEASES) };
    assert!(ins.calls == 1);
    assert!(ins.value == Some(v));
    assert!(ins.verified_at == cur.as_usize());
    assert!(ins.origin_kind == 2 && ins.assigned_by == Some(creator));
    // sound directions: never more durable than the creator, never "changed" earlier than what the creator read
    assert!(ins.durability <= stamp.durability.index() as u8);
    let backdated = stored && old_value == Some(v) && cd >= od;
    assert!(ins.durability == cd.index() as u8);
    assert!(ins.changed_at == if backdated { ca.as_usize() } else { cc.as_usize() });
    assert!(crate::zalsa_local::verif::top_frame_has_output(l, DatabaseKeyIndex::new(IngredientIndex::new(2), w.id)));
    if !backdated {
        assert!(ins.changed_at >= stamp.changed_at.as_usize() && ins.changed_at <= cur.as_usize());
    } else {
        assert!(ins.changed_at >= ca.as_usize() && ins.changed_at <= cur.as_usize());
    }
    assert!(!ins.provisional);
    assert!(diffed == if stored { &old.header as *const MemoHeader as usize } else { 0 });
    assert!(claims == 1 && releases == 1);
    vcover!(backdated, "backdating reachable");
    vcover!(!backdated && old_value == Some(v), "equal value, less durable: not backdated");
    std::mem::forget(frame);
    std::mem::forget(w);
}

pub(crate) struct CGenFix;
pub(crate) const INITIAL_VALUE: u32 = 0xC1C1;
// SAFETY: `u32` output.
unsafe impl Configuration for CGenFix {
    const DEBUG_NAME: &'static str = "genfix";
    const LOCATION: crate::ingredient::Location = crate::ingredient::Location { file: "", line: 0 };
    const PERSIST: bool = false;
    type DbView = HDb;
    type SalsaStruct<'db> = GKey;
    type Input<'db> = GKey;
    type Output<'db> = u32;
    type Eviction = NoopEviction;
    const CYCLE_STRATEGY: CycleRecoveryStrategy = CycleRecoveryStrategy::Fixpoint;
    fn values_equal<'db>(a: &u32, b: &u32) -> bool {
        a == b
    }
    fn id_to_input(_: &Zalsa, key: Id) -> GKey {
        GKey(key)
    }
    fn execute<'db>(_: &'db HDb, _: GKey) -> u32 {
        unreachable!("the user function is behind the stubbed `execute`")
    }
    fn cycle_initial<'db>(_: &'db HDb, _: Id, _: GKey) -> u32 {
        INITIAL_VALUE
    }
    fn recover_from_cycle<'db>(_: &'db HDb, _: &Cycle, _: &u32, v: u32, _: GKey) -> u32 {
        v
    }
    fn serialize<S>(_: &u32, _: S) -> Result<S::Ok, S::Error>
    where
        S: plumbing::serde::Serializer,
    {
        unimplemented!()
    }
    fn deserialize<'de, D>(_: D) -> Result<u32, D::Error>
    where
        D: plumbing::serde::Deserializer<'de>,
    {
        unimplemented!()
    }
}

//@ob id=G-CYCLE-1 kind=C props=C15,C14,C20 timeout=1800 fn=IngredientImpl::fetch,IngredientImpl::fetch_cold,IngredientImpl::fetch_cold_cycle,QueryRevisions::fixpoint_initial flags=stubs,noreplay
//@ pre: a fixpoint function is re-entered on its own thread (the claim table reports a cycle); the key has no memo or a **value-less (poisoned) provisional memo** left by a panicking execution, verified at any revision <= current, with any cancellation epoch; any current cancellation epoch
//@ post: the propagated-panic cancellation is raised only for a poisoned memo **of the current revision and epoch**; a poisoned memo from an earlier revision (or epoch) never blocks the function: the initial value is inserted (verified now, provisional, initial iteration of the current epoch) and returned - so the function converges again once its inputs allow it
#[cfg(kani)]
#[kani::proof]
#[kani::unwind(5)]
#[kani::stub(crate::sync::max_parallelism, crate::verif_support::one_core)]
#[kani::stub(crate::function::sync::SyncTable::try_claim, crate::function::sync::verif::stub_try_claim_cycle)]
#[kani::stub(crate::function::IngredientImpl::get_memo_from_table_for, stub_get_memo)]
#[kani::stub(crate::function::IngredientImpl::insert_memo, stub_insert_memo)]
#[kani::stub(crate::cancelled::Cancelled::throw, stub_throw)]
#[kani::stub(crate::function::IngredientImpl::execute, stub_execute)]
fn g_cycle_1_reentry_with_poisoned_memo() {
    let mut z = crate::zalsa::verif::bare_zalsa();
    let (r0, r1, r2) = (vk::any_revision(), vk::any_revision(), vk::any_revision());
    vk::assume(r0 >= r1 && r1 >= r2);
    crate::runtime::verif::set_revs(z.runtime_mut(), [r0, r1, r2]);
    let epoch_now: bool = vk::any();
    if epoch_now {
        z.runtime_mut().bump_cancellation_count();
    }
    let cur = r0;
    let now = z.runtime().cancellation_count();
    let ing = IngredientImpl::<CGenFix>::new(IngredientIndex::new(2), crate::memo_ingredient_indices::verif::singleton(0), 0);
    // SAFETY: small index
    let id = unsafe { Id::from_index(7) };
    let db = HDb { zalsa: z, local: crate::zalsa_local::verif::local_static() };
    let me = ing.database_key_index(id);
    let stored: bool = vk::any();
    let va = vk::any_revision();
    vk::assume(va <= cur);
    let memo_epoch: u8 = if vk::any() { 1 } else { 0 };
    let stamp = crate::cycle::IterationStamp::initial(memo_epoch);
    let poisoned: &'static Memo<CGenFix> = Box::leak(Box::new(Memo::<CGenFix>::new(
        None,
        va,
        crate::zalsa_local::verif::revs(Durability::LOW, Revision::start(), false, crate::zalsa_local::OriginAndExtra::derived(std::iter::empty(), crate::zalsa_local::verif::extra_with_head(me, stamp))),
    )));
    // SAFETY: single-threaded harness
    unsafe {
        CUR_MEMO = if stored { poisoned as *const Memo<CGenFix> as usize } else { 0 };
        THROW_ALLOWED = stored && va == cur && memo_epoch == now;
    }
    let (z, l) = db.zalsas();
    let v = *ing.fetch(&db, z, l, id);
    // reaching here: nothing was thrown
    assert!(v == INITIAL_VALUE);
    // SAFETY: single-threaded harness
    let ins = unsafe { INS };
    assert!(ins.calls == 1);
    assert!(ins.value == Some(INITIAL_VALUE) && ins.verified_at == cur.as_usize() && ins.provisional);
    assert!(ins.epoch == now);
    vcover!(stored && va < cur, "stale poisoned memo is replaced by the initial value");
    vcover!();
    std::mem::forget(db);
    std::mem::forget(ing);
}

// ---- `insert_memo`: a replaced memo is parked, never freed, until the next revision ----------------
/// address the stubbed `insert_memo_into_table_for` reports as the memo that was stored before
pub(crate) static mut REPLACED: usize = 0;
pub(crate) static mut PARKED: usize = 0;
pub(crate) static mut PARK_CALLS: u32 = 0;
pub(crate) fn stub_insert_into_table<C: Configuration>(_this: &IngredientImpl<C>, _zalsa: &Zalsa, _id: Id, _memo: std::ptr::NonNull<Memo<C>>, _mi: MemoIngredientIndex) -> Option<std::ptr::NonNull<Memo<C>>> {
    // SAFETY: single-threaded harness
    std::ptr::NonNull::new(unsafe { REPLACED } as *mut Memo<C>)
}
pub(crate) unsafe fn stub_park<C: Configuration>(_this: &delete::DeletedEntries<C>, memo: std::ptr::NonNull<Memo<C>>) {
    // SAFETY: single-threaded harness
    unsafe {
        PARK_CALLS += 1;
        PARKED = memo.as_ptr() as usize;
    }
}

//@ob id=G-INS-1 kind=C props=C23 timeout=900 fn=IngredientImpl::insert_memo flags=stubs,noreplay
//@ pre: a memo is inserted for a key that already holds a memo (with a value, or without one: evicted / poisoned placeholder) or holds none; the table swap and the deferred-free list are stubbed to record their arguments
//@ post: a replaced memo - **with or without a value** - is handed to the deferred-free list exactly once and is not freed now (`execute`, `backdate_if_appropriate` and `diff_outputs` still hold a reference to the old memo's header while the new one is inserted); nothing is parked when nothing was replaced; the returned reference is the new memo (CBMC's memory checks are on: a free of the old memo here would fail the later read)
#[cfg(kani)]
#[kani::proof]
#[kani::unwind(4)]
#[kani::stub(crate::sync::max_parallelism, crate::verif_support::one_core)]
#[kani::stub(crate::function::IngredientImpl::insert_memo_into_table_for, stub_insert_into_table)]
#[kani::stub(crate::function::delete::DeletedEntries::push, stub_park)]
fn g_ins_1_replaced_memo_is_parked() {
    let w = world();
    let cur = w.cur;
    let replaced: bool = vk::any();
    let old_has_value: bool = vk::any();
    let old = memo(if old_has_value { Some(11) } else { None }, cur, Durability::LOW, cur);
    // SAFETY: single-threaded harness
    unsafe { REPLACED = if replaced { addr(old) } else { 0 } };
    let new = Memo::<CGen>::new(Some(12), cur, crate::zalsa_local::verif::revs(Durability::LOW, cur, true, crate::zalsa_local::verif::empty_derived()));
    let m = w.ing.insert_memo(&w.db.zalsa, w.id, new, MemoIngredientIndex::from_usize(0));
    assert!(m.value == Some(12));
    // SAFETY: single-threaded harness
    let (calls, parked) = unsafe { (PARK_CALLS, PARKED) };
    if replaced {
        assert!(calls == 1 && parked == addr(old));
        // the old memo is still alive (its holder may still read it)
        assert!(old.header.verified_at.load() == cur);
        assert!(old.value.is_some() == old_has_value);
    } else {
        assert!(calls == 0);
    }
    vcover!(replaced && !old_has_value, "a value-less memo is replaced");
    vcover!();
    std::mem::forget(w);
}

// ---- `execute` (non-cycle strategy): the glue around the user function ------------------------------
/// did `execute_query` receive an old memo header (to seed tracked-struct ids from)?
pub(crate) static mut EXQ_OLD: usize = 0;
pub(crate) static mut EXQ_CALLS: u32 = 0;
/// what the user function "returns" and the stamp of what it read
pub(crate) static mut EXQ_VALUE: u32 = 0;
pub(crate) static mut POP_DURABILITY: u8 = 0;
pub(crate) fn stub_execute_query<'db, C: Configuration>(
    _db: &'db C::DbView,
    _zalsa: &'db Zalsa,
    active_query: crate::zalsa_local::ActiveQueryGuard<'db>,
    opt_old_header: Option<&MemoHeader>,
) -> (C::Output<'db>, crate::zalsa_local::ActiveQueryGuard<'db>) {
    // SAFETY: single-threaded harness; every harness configuration has `Output = u32`
    unsafe {
        EXQ_CALLS += 1;
        EXQ_OLD = match opt_old_header {
            Some(h) => h as *const MemoHeader as usize,
            None => 0,
        };
        let v: u32 = EXQ_VALUE;
        (std::mem::transmute_copy::<u32, C::Output<'db>>(&v), active_query)
    }
}

/// `execute_maybe_iterate` is the cycle-strategy arm of `execute`; it is not reachable for the Panic strategy
/// but reachable for the compiler, and its thread-local pool (`FLATTEN_MAPS`) makes kani-compiler ICE.
pub(crate) fn stub_no_iterate<'db, C: Configuration>(
    _this: &'db IngredientImpl<C>,
    _db: &'db C::DbView,
    _opt_old_memo: Option<&'db Memo<C>>,
    _claim_guard: &mut ClaimGuard<'db>,
    _mi: MemoIngredientIndex,
) -> (C::Output<'db>, crate::active_query::CompletedQuery) {
    unreachable!("Panic-strategy queries never iterate")
}

//@ob id=G-EXEC-1 kind=C props=C01,C03,C06 timeout=1800 fn=IngredientImpl::execute,IngredientImpl::backdate_if_appropriate,MemoHeader::can_backdate,MemoHeader::backdate,QueryRevisions::discard_edges_if_never_change flags=stubs,noreplay
//@ pre: a claimed key of a function without cycle handling, with or without an old memo (final, with a value, any durability, changed_at <= verified_at < current); the user function (stub of `execute_query`) returns any value; the popped frame (stub of `ActiveQueryGuard::pop`) reports any durability and changed_at = current revision, no cycle heads
//@ post: exactly one memo is stored: the new value, verified in the current revision; its changed_at is the **old memo's** iff an old memo exists, the values are equal and the new result is not less durable (backdating, C03) and is the **current revision** otherwise (a changed value is never backdated, C01)
//@ post: the old memo's header is handed to the user-function runner (to seed tracked-struct ids) and to diff_outputs iff there is an old memo [C06]; the claim is released exactly once; the stored memo is returned
#[cfg(kani)]
#[kani::proof]
#[kani::unwind(4)]
#[kani::stub(crate::sync::max_parallelism, crate::verif_support::one_core)]
#[kani::stub(crate::function::sync::ClaimGuard::drop_impl, crate::function::sync::ClaimGuard::verif_release)]
#[kani::stub(crate::function::IngredientImpl::execute_query, stub_execute_query)]
#[kani::stub(crate::function::IngredientImpl::execute_maybe_iterate, stub_no_iterate)]
#[kani::stub(crate::zalsa_local::ActiveQueryGuard::pop, crate::zalsa_local::ActiveQueryGuard::verif_pop)]
#[kani::stub(crate::function::IngredientImpl::insert_memo, stub_insert_memo)]
#[kani::stub(crate::function::memo::MemoHeader::diff_outputs, crate::function::memo::MemoHeader::verif_diff_outputs)]
fn g_exec_1_execute_glue() {
    let w = world();
    let cur = w.cur;
    let (z, l) = w.db.zalsas();
    let has_old: bool = vk::any();
    let (va, ca) = (vk::any_revision(), vk::any_revision());
    vk::assume(ca <= va && va < cur);
    let od = vk::any_durability();
    let ov: u32 = vk::any();
    let old = memo(Some(ov), va, od, ca);
    let nv: u32 = vk::any();
    let nd = vk::any_durability();
    // SAFETY: single-threaded harness
    unsafe {
        EXQ_VALUE = nv;
        POP_DURABILITY = nd.index() as u8;
    }
    let guard = crate::function::sync::verif::fake_guard(z, l, IngredientIndex::new(2), w.id);
    let r = w.ing.execute(&w.db, guard, if has_old { Some(old) } else { None });
    // SAFETY: single-threaded harness
    let (ins, diffed, exq_old, exq_calls, releases) = unsafe { (INS, DIFFED, EXQ_OLD, EXQ_CALLS, crate::function::sync::verif::RELEASES) };
    assert!(r.is_some());
    assert!(exq_calls == 1 && ins.calls == 1 && releases == 1);
    assert!(ins.value == Some(nv));
    assert!(ins.verified_at == cur.as_usize());
    let backdate = has_old && ov == nv && nd >= od;
    assert!(ins.changed_at == if backdate { ca.as_usize() } else { cur.as_usize() });
    let old_hdr = &old.header as *const MemoHeader as usize;
    assert!(exq_old == if has_old { old_hdr } else { 0 });
    assert!(diffed == if has_old { old_hdr } else { 0 });
    vcover!(backdate, "backdating reachable");
    vcover!(has_old && ov != nv, "changed value reachable");
    vcover!();
    std::mem::forget(w);
}

//@ob id=G-EVICT-1 kind=C props=C05,C04,C10 timeout=1200 fn=IngredientImpl::evict_value_from_memo_for,MemoHeader::can_evict_value,MemoTableWithTypes::insert,MemoTableWithTypesMut::map_memo,MemoTableWithTypes::get
//@ pre: a real one-slot memo table holding a memo with a value, of each origin kind (derived / derived-untracked / assigned), any stamps
//@ post: eviction drops the value **iff** the origin is fully tracked Derived; in every case the header is untouched: same verified_at, changed_at, durability, origin kind and finality (the dependency information of an evicted result is kept), and the slot still holds the same memo
#[cfg(kani)]
#[kani::proof]
#[kani::unwind(4)]
fn g_evict_1_eviction_keeps_the_header() {
    let (types, mut memos) = crate::table::memo::verif::standalone::<Memo<CGen>>();
    let kind: u8 = vk::any();
    vk::assume(kind < 3);
    let origin = match kind {
        0 => crate::zalsa_local::verif::empty_derived(),
        1 => crate::zalsa_local::OriginAndExtra::derived_untracked(std::iter::empty(), Default::default()),
        _ => crate::zalsa_local::OriginAndExtra::assigned(vk::key(5, 3)),
    };
    let (va, ca) = (vk::any_revision(), vk::any_revision());
    let d = vk::any_durability();
    let vf: bool = vk::any();
    let m: &'static mut Memo<CGen> = Box::leak(Box::new(Memo::<CGen>::new(Some(11), va, crate::zalsa_local::verif::revs(d, ca, vf, origin))));
    let ptr = std::ptr::NonNull::from(&mut *m);
    let mi = MemoIngredientIndex::from_usize(0);
    // SAFETY: `memos` was created for `types`
    let old = unsafe { types.attach_memos(&memos) }.insert(mi, ptr);
    assert!(old.is_none());
    // SAFETY: `memos` was created for `types`
    IngredientImpl::<CGen>::evict_value_from_memo_for(unsafe { types.attach_memos_mut(&mut memos) }, mi);
    // SAFETY: `memos` was created for `types`
    let got = unsafe { types.attach_memos(&memos) }.get::<Memo<CGen>>(mi).unwrap();
    assert!(got == ptr);
    // SAFETY: the memo is leaked
    let m = unsafe { got.as_ref() };
    assert!(m.value.is_none() == (kind == 0));
    assert!(m.header.verified_at.load() == va && m.header.revisions.changed_at == ca && m.header.revisions.durability == d);
    assert!(m.header.may_be_provisional() == !vf);
    assert!(match m.header.origin() {
        crate::zalsa_local::QueryOriginRef::Derived(_) => kind == 0,
        crate::zalsa_local::QueryOriginRef::DerivedUntracked(_) => kind == 1,
        crate::zalsa_local::QueryOriginRef::Assigned(k) => kind == 2 && k == vk::key(5, 3),
    });
    vcover!(kind == 0, "evictable case");
    vcover!();
    std::mem::forget(memos);
    std::mem::forget(types);
}

//@ob id=G-FETCH-2 kind=C props=C01,C03,C05,C06 timeout=2400 fn=IngredientImpl::fetch,IngredientImpl::refresh_memo,IngredientImpl::fetch_hot,IngredientImpl::fetch_cold,IngredientImpl::get_memo_from_table_for,MemoTableWithTypes::get,MemoTableWithTypes::insert flags=stubs,noreplay
//@ pre: as G-FETCH-1, but the memo lives in a **real** one-slot memo table and `get_memo_from_table_for` is the real code (only the claim table, `verify_memo` and `execute` remain stubbed)
//@ post: as G-FETCH-1
#[cfg(kani)]
#[kani::proof]
#[kani::unwind(4)]
#[kani::stub(crate::sync::max_parallelism, crate::verif_support::one_core)]
#[kani::stub(crate::function::sync::SyncTable::try_claim, crate::function::sync::verif::stub_try_claim)]
#[kani::stub(crate::function::sync::ClaimGuard::drop_impl, crate::function::sync::ClaimGuard::verif_release)]
#[kani::stub(crate::function::memo::MemoHeader::verify_memo, crate::function::memo::MemoHeader::verif_verify_memo)]
#[kani::stub(crate::function::IngredientImpl::execute, stub_execute_real)]
fn g_fetch_2_fetch_real_memo_table() {
    let w = world();
    install_real_table();
    let cur = w.cur;
    let stored: bool = vk::any();
    let has_value: bool = vk::any();
    let (va, ca) = (vk::any_revision(), vk::any_revision());
    vk::assume(ca <= va && va <= cur);
    let d = vk::any_durability();
    let old = memo(if has_value { Some(11) } else { None }, va, d, ca);
    let new = memo(Some(12), cur, d, cur);
    if stored {
        store_real(old);
    }
    // SAFETY: single-threaded harness
    unsafe { EXEC_RESULT = addr(new) };
    let (z, l) = w.db.zalsas();
    let v = *w.ing.fetch(&w.db, z, l, w.id);
    // SAFETY: single-threaded harness
    let (calls, old_seen, claims, releases, vcalls) = unsafe { (EXEC_CALLS, EXEC_OLD, crate::function::sync::verif::CLAIMS, crate::function::sync::verif::RELEASES, VERIFY_CALLS) };
    assert!(calls <= 1);
    assert!(claims == releases);
    if calls == 1 {
        assert!(v == 12);
        assert!(old_seen == if stored { addr(old) } else { 0 });
        assert!(!(stored && has_value && old.header.verified_at.load() == cur));
    } else {
        assert!(stored && has_value && v == 11);
        assert!(old.header.verified_at.load() == cur);
    }
    let _ = vcalls;
    vcover!(calls == 1 && stored && !has_value, "an evicted value re-executes with its old memo");
    vcover!(calls == 0, "reuse path reachable");
    vcover!();
    std::mem::forget(w);
}

//@ob id=G-FETCH-3 kind=C props=C01,C03,C05,C06 timeout=2400 fn=IngredientImpl::fetch,IngredientImpl::refresh_memo,IngredientImpl::fetch_hot,IngredientImpl::fetch_cold,IngredientImpl::get_memo_from_table_for,MemoTableWithTypes::get,MemoTableWithTypes::insert flags=stubs,noreplay
//@ pre: as G-FETCH-2, and `verify_memo` is the real code too (shallow + deep verification); the stored memo has no edges and is fully tracked (deep verification succeeds) or untracked (deep verification fails), symbolically; only the claim table and `execute` remain stubbed
//@ post: as G-FETCH-1
#[cfg(kani)]
#[kani::proof]
#[kani::unwind(4)]
#[kani::stub(crate::sync::max_parallelism, crate::verif_support::one_core)]
#[kani::stub(crate::function::sync::SyncTable::try_claim, crate::function::sync::verif::stub_try_claim)]
#[kani::stub(crate::function::sync::ClaimGuard::drop_impl, crate::function::sync::ClaimGuard::verif_release)]
#[kani::stub(crate::function::IngredientImpl::execute, stub_execute_real)]
fn g_fetch_3_fetch_real_verification() {
    let w = world();
    install_real_table();
    let cur = w.cur;
    let stored: bool = vk::any();
    let has_value: bool = vk::any();
    let (va, ca) = (vk::any_revision(), vk::any_revision());
    vk::assume(ca <= va && va <= cur);
    let d = vk::any_durability();
    let untracked: bool = vk::any();
    let old = memo_kind(if has_value { Some(11) } else { None }, va, d, ca, untracked);
    let new = memo(Some(12), cur, d, cur);
    if stored {
        store_real(old);
    }
    // SAFETY: single-threaded harness
    unsafe { EXEC_RESULT = addr(new) };
    let (z, l) = w.db.zalsas();
    let v = *w.ing.fetch(&w.db, z, l, w.id);
    // SAFETY: single-threaded harness
    let (calls, old_seen, claims, releases, vcalls) = unsafe { (EXEC_CALLS, EXEC_OLD, crate::function::sync::verif::CLAIMS, crate::function::sync::verif::RELEASES, VERIFY_CALLS) };
    assert!(calls <= 1);
    assert!(claims == releases);
    if calls == 1 {
        assert!(v == 12);
        assert!(old_seen == if stored { addr(old) } else { 0 });
        assert!(!(stored && has_value && old.header.verified_at.load() == cur));
    } else {
        assert!(stored && has_value && v == 11);
        assert!(old.header.verified_at.load() == cur);
    }
    let _ = vcalls;
    if stored && has_value && calls == 1 {
        // re-executed although a value was there: only because it could not be verified
        assert!(untracked || va < cur);
    }
    vcover!(calls == 1 && stored && !has_value, "an evicted value re-executes with its old memo");
    vcover!(calls == 0, "reuse path reachable");
    vcover!();
    std::mem::forget(w);
}

//@ob id=G-MCA-2 kind=C props=C01,C03,C04,C11 timeout=1800 fn=IngredientImpl::maybe_changed_after,IngredientImpl::maybe_changed_after_cold,MemoHeader::maybe_changed_after_hot,MemoHeader::shallow_verify_memo,MemoHeader::update_shallow,VerifyResult::unchanged_for_memo flags=stubs,noreplay
//@ pre: as G-MCA-1 but the memo lives in a **real** one-slot memo table (`get_memo_from_table_for`, `memo_slot`, `MemoSlot::get_erased`, `ErasedMemo::downcast` are the real code); any monotone revision vector; the key has no memo, or a final derived memo with any value presence (Some / evicted), any durability, verified at any revision <= current, changed_at <= verified_at; `verify_memo` (stub, contract above) gives any verdict; `execute` (stub) returns a memo verified now with any changed_at <= current; any query revision `rev` <= current
//@ post: Unchanged <=> the memo that is valid at the end (the stored one if it verified, else the re-executed one) has changed_at <= rev - after a re-execution it is the **new** memo's changed_at that is compared with the caller's revision [C01, C04]; nothing else yields Changed [C03]; no memo => Changed
//@ post: an Unchanged answer carries the memo's accumulated-inputs flag **as it is after verification** [C11]
//@ post: `execute` runs at most once and gets the stored memo as old memo; a memo that is neither verified nor re-executed (the code does this for an evicted value) is reported Changed; every granted claim is released exactly once
#[cfg(kani)]
#[kani::proof]
#[kani::unwind(4)]
#[kani::stub(crate::sync::max_parallelism, crate::verif_support::one_core)]
#[kani::stub(crate::function::sync::SyncTable::try_claim, crate::function::sync::verif::stub_try_claim)]
#[kani::stub(crate::function::sync::ClaimGuard::drop_impl, crate::function::sync::ClaimGuard::verif_release)]
#[kani::stub(crate::function::memo::MemoHeader::verify_memo, crate::function::memo::MemoHeader::verif_verify_memo)]
#[kani::stub(crate::function::IngredientImpl::execute, stub_execute_real)]
fn g_mca_2_maybe_changed_after_real_memo_table() {
    let w = world();
    install_real_table();
    let cur = w.cur;
    let stored: bool = vk::any();
    let has_value: bool = vk::any();
    let (va, ca) = (vk::any_revision(), vk::any_revision());
    vk::assume(ca <= va && va <= cur);
    let d = vk::any_durability();
    let old = memo(if has_value { Some(11) } else { None }, va, d, ca);
    let nca = vk::any_revision();
    vk::assume(nca <= cur);
    let new = memo(Some(12), cur, d, nca);
    // SAFETY: single-threaded harness
    unsafe { EXEC_RESULT = addr(new) };
    if stored {
        store_real(old);
    }
    let rev = vk::any_revision();
    vk::assume(rev <= cur);
    let res = w.ing.maybe_changed_after(&w.db, w.id, rev);
    // SAFETY: single-threaded harness
    let (calls, old_seen, claims, releases) = unsafe { (EXEC_CALLS, EXEC_OLD, crate::function::sync::verif::CLAIMS, crate::function::sync::verif::RELEASES) };
    assert!(calls <= 1);
    assert!(claims == releases);
    if !stored {
        assert!(!res.is_unchanged() && calls == 0);
    } else if calls == 1 {
        assert!(old_seen == addr(old));
        assert!(res.is_unchanged() == (nca <= rev));
    } else if old.header.verified_at.load() == cur {
        // the stored memo is valid in the current revision (it was, or verification just said so)
        assert!(res.is_unchanged() == (ca <= rev));
        if let Some(acc) = acc_of(&res) {
            assert!(acc == old.header.revisions.accumulated_inputs.load().is_any());
        }
    } else {
        // neither verified nor re-executed: the answer must be Changed (what the code does for an evicted value)
        assert!(!res.is_unchanged());
    }
    vcover!(calls == 1, "re-execution path reachable");
    vcover!(stored && calls == 0 && res.is_unchanged(), "verified-unchanged path reachable");
    vcover!();
    std::mem::forget(w);
}


//@off(cbmc-does-not-finish-in-50-min) id=G-FETCH-4 kind=C props=C01,C03 tier=thorough timeout=5400 fn=IngredientImpl::fetch,IngredientImpl::fetch_cold,IngredientImpl::execute,IngredientImpl::insert_memo,IngredientImpl::backdate_if_appropriate,MemoHeader::verify_memo flags=stubs,noreplay
//@ pre: as G-FETCH-3, and `execute` and `insert_memo` are the real code as well: only the claim table, the user-function runner (`execute_query`: returns any value), the frame pop (reports any durability, changed_at = current) and `diff_outputs` are stubbed
//@ post: the value returned is the stored one iff it exists and verifies, else the value the user function returned now; afterwards the table holds a memo with that value that is verified in the current revision; the user function runs at most once
#[cfg(kani)]
#[kani::proof]
#[kani::unwind(4)]
#[kani::stub(crate::sync::max_parallelism, crate::verif_support::one_core)]
#[kani::stub(crate::function::sync::SyncTable::try_claim, crate::function::sync::verif::stub_try_claim)]
#[kani::stub(crate::function::sync::ClaimGuard::drop_impl, crate::function::sync::ClaimGuard::verif_release)]
#[kani::stub(crate::function::IngredientImpl::execute_query, stub_execute_query)]
#[kani::stub(crate::function::IngredientImpl::execute_maybe_iterate, stub_no_iterate)]
#[kani::stub(crate::zalsa_local::ActiveQueryGuard::pop, crate::zalsa_local::ActiveQueryGuard::verif_pop)]
#[kani::stub(crate::function::memo::MemoHeader::diff_outputs, crate::function::memo::MemoHeader::verif_diff_outputs)]
fn g_fetch_4_fetch_with_real_execute() {
    let w = world();
    install_real_table();
    let cur = w.cur;
    let stored: bool = vk::any();
    let has_value: bool = vk::any();
    let (va, ca) = (vk::any_revision(), vk::any_revision());
    vk::assume(ca <= va && va <= cur);
    let d = vk::any_durability();
    let untracked: bool = vk::any();
    let ov: u32 = vk::any();
    let old = memo_kind(if has_value { Some(ov) } else { None }, va, d, ca, untracked);
    if stored {
        store_real(old);
    }
    let nv: u32 = vk::any();
    // SAFETY: single-threaded harness
    unsafe {
        EXQ_VALUE = nv;
        POP_DURABILITY = vk::any_durability().index() as u8;
    }
    let (z, l) = w.db.zalsas();
    let v = *w.ing.fetch(&w.db, z, l, w.id);
    // SAFETY: single-threaded harness
    let (runs, claims, releases) = unsafe { (EXQ_CALLS, crate::function::sync::verif::CLAIMS, crate::function::sync::verif::RELEASES) };
    assert!(runs <= 1 && claims == releases);
    if runs == 1 {
        assert!(v == nv);
        assert!(!(stored && has_value && !untracked && va == cur));
    } else {
        assert!(stored && has_value && v == ov);
    }
    let now = w.ing.get_memo_from_table_for(z, w.id, MemoIngredientIndex::from_usize(0)).unwrap();
    assert!(now.value == Some(v) && now.header.verified_at.load() == cur);
    vcover!(runs == 1 && stored, "re-execution replaces a stored memo");
    vcover!(runs == 0, "reuse path reachable");
    vcover!();
    std::mem::forget(w);
}

//@ob id=G-MCA-3 kind=C props=C01,C03,C04,C11 timeout=1800 fn=IngredientImpl::maybe_changed_after,IngredientImpl::maybe_changed_after_cold,MemoHeader::maybe_changed_after_hot,MemoHeader::shallow_verify_memo,MemoHeader::update_shallow,VerifyResult::unchanged_for_memo flags=stubs,noreplay
//@ pre: as G-MCA-2, and `verify_memo` is the real code too (shallow + deep verification; the stored memo has no edges and is fully tracked or untracked, symbolically); as G-MCA-1 but the memo lives in a **real** one-slot memo table (`get_memo_from_table_for`, `memo_slot`, `MemoSlot::get_erased`, `ErasedMemo::downcast` are the real code); any monotone revision vector; the key has no memo, or a final derived memo with any value presence (Some / evicted), any durability, verified at any revision <= current, changed_at <= verified_at; `verify_memo` (stub, contract above) gives any verdict; `execute` (stub) returns a memo verified now with any changed_at <= current; any query revision `rev` <= current
//@ post: Unchanged <=> the memo that is valid at the end (the stored one if it verified, else the re-executed one) has changed_at <= rev - after a re-execution it is the **new** memo's changed_at that is compared with the caller's revision [C01, C04]; nothing else yields Changed [C03]; no memo => Changed
//@ post: an Unchanged answer carries the memo's accumulated-inputs flag **as it is after verification** [C11]
//@ post: `execute` runs at most once and gets the stored memo as old memo; a memo that is neither verified nor re-executed (the code does this for an evicted value) is reported Changed; every granted claim is released exactly once
#[cfg(kani)]
#[kani::proof]
#[kani::unwind(4)]
#[kani::stub(crate::sync::max_parallelism, crate::verif_support::one_core)]
#[kani::stub(crate::function::sync::SyncTable::try_claim, crate::function::sync::verif::stub_try_claim)]
#[kani::stub(crate::function::sync::ClaimGuard::drop_impl, crate::function::sync::ClaimGuard::verif_release)]
#[kani::stub(crate::function::IngredientImpl::execute, stub_execute_real)]
fn g_mca_3_maybe_changed_after_real_verification() {
    let w = world();
    install_real_table();
    let cur = w.cur;
    let stored: bool = vk::any();
    let has_value: bool = vk::any();
    let (va, ca) = (vk::any_revision(), vk::any_revision());
    vk::assume(ca <= va && va <= cur);
    let d = vk::any_durability();
    let untracked: bool = vk::any();
    let old = memo_kind(if has_value { Some(11) } else { None }, va, d, ca, untracked);
    let nca = vk::any_revision();
    vk::assume(nca <= cur);
    let new = memo(Some(12), cur, d, nca);
    // SAFETY: single-threaded harness
    unsafe { EXEC_RESULT = addr(new) };
    if stored {
        store_real(old);
    }
    let rev = vk::any_revision();
    vk::assume(rev <= cur);
    let res = w.ing.maybe_changed_after(&w.db, w.id, rev);
    // SAFETY: single-threaded harness
    let (calls, old_seen, claims, releases) = unsafe { (EXEC_CALLS, EXEC_OLD, crate::function::sync::verif::CLAIMS, crate::function::sync::verif::RELEASES) };
    assert!(calls <= 1);
    assert!(claims == releases);
    if !stored {
        assert!(!res.is_unchanged() && calls == 0);
    } else if calls == 1 {
        assert!(old_seen == addr(old));
        assert!(res.is_unchanged() == (nca <= rev));
    } else if old.header.verified_at.load() == cur {
        // the stored memo is valid in the current revision (it was, or verification just said so)
        assert!(res.is_unchanged() == (ca <= rev));
        if let Some(acc) = acc_of(&res) {
            assert!(acc == old.header.revisions.accumulated_inputs.load().is_any());
        }
    } else {
        // neither verified nor re-executed: the answer must be Changed (what the code does for an evicted value)
        assert!(!res.is_unchanged());
    }
    vcover!(calls == 1, "re-execution path reachable");
    vcover!(stored && calls == 0 && res.is_unchanged(), "verified-unchanged path reachable");
    vcover!();
    std::mem::forget(w);
}

// ---- `fetch` tells the eviction policy about every request -----------------------------------------
/// An eviction policy that records what `fetch` tells it (the real `Lru` is V-LRU-1..5).
pub(crate) struct RecEvict;
pub(crate) static mut USES: u32 = 0;
pub(crate) static mut LAST_USED: Option<Id> = None;
impl EvictionPolicy for RecEvict {
    fn new(_: usize) -> Self {
        RecEvict
    }
    fn record_use(&self, id: Id) {
        // SAFETY: single-threaded harness
        unsafe {
            USES += 1;
            LAST_USED = Some(id);
        }
    }
    fn set_capacity(&mut self, _: usize) {}
    fn for_each_evicted(&mut self, _: impl FnMut(Id)) {}
}
pub(crate) struct CGenRec;
// SAFETY: `u32` output.
unsafe impl Configuration for CGenRec {
    const DEBUG_NAME: &'static str = "genrec";
    const LOCATION: crate::ingredient::Location = crate::ingredient::Location { file: "", line: 0 };
    const PERSIST: bool = false;
    type DbView = HDb;
    type SalsaStruct<'db> = GKey;
    type Input<'db> = GKey;
    type Output<'db> = u32;
    type Eviction = RecEvict;
    const CYCLE_STRATEGY: CycleRecoveryStrategy = CycleRecoveryStrategy::Panic;
    fn values_equal<'db>(a: &u32, b: &u32) -> bool {
        a == b
    }
    fn id_to_input(_: &Zalsa, key: Id) -> GKey {
        GKey(key)
    }
    fn execute<'db>(_: &'db HDb, _: GKey) -> u32 {
        unreachable!("the user function is behind the stubbed `execute`")
    }
    fn cycle_initial<'db>(_: &'db HDb, _: Id, _: GKey) -> u32 {
        unreachable!()
    }
    fn recover_from_cycle<'db>(_: &'db HDb, _: &Cycle, _: &u32, v: u32, _: GKey) -> u32 {
        v
    }
    fn serialize<S>(_: &u32, _: S) -> Result<S::Ok, S::Error>
    where
        S: plumbing::serde::Serializer,
    {
        unimplemented!()
    }
    fn deserialize<'de, D>(_: D) -> Result<u32, D::Error>
    where
        D: plumbing::serde::Deserializer<'de>,
    {
        unimplemented!()
    }
}

//@ob id=G-LRU-1 kind=C props=C05 timeout=1800 fn=IngredientImpl::fetch,EvictionPolicy::record_use flags=stubs,noreplay
//@ pre: as G-FETCH-2 for a function whose eviction policy records its calls (any id, stored memo or not, any verification verdict)
//@ post: every request - served from the cache or by executing - reports **that key** to the eviction policy exactly once (so "least recently requested" in V-LRU is about requests, including cache hits)
#[cfg(kani)]
#[kani::proof]
#[kani::unwind(4)]
#[kani::stub(crate::sync::max_parallelism, crate::verif_support::one_core)]
#[kani::stub(crate::function::sync::SyncTable::try_claim, crate::function::sync::verif::stub_try_claim)]
#[kani::stub(crate::function::sync::ClaimGuard::drop_impl, crate::function::sync::ClaimGuard::verif_release)]
#[kani::stub(crate::function::memo::MemoHeader::verify_memo, crate::function::memo::MemoHeader::verif_verify_memo)]
#[kani::stub(crate::function::IngredientImpl::execute, stub_execute_real)]
fn g_lru_1_every_request_is_reported() {
    let w = world();
    let ing = IngredientImpl::<CGenRec>::new(IngredientIndex::new(2), crate::memo_ingredient_indices::verif::singleton(0), 3);
    install_real_table_for::<CGenRec>();
    let cur = w.cur;
    let id = vk::any_id();
    let stored: bool = vk::any();
    let (va, ca) = (vk::any_revision(), vk::any_revision());
    vk::assume(ca <= va && va <= cur);
    let d = vk::any_durability();
    let mk = |v: Option<u32>, va: Revision, ca: Revision| -> &'static Memo<CGenRec> {
        Box::leak(Box::new(Memo::<CGenRec>::new(v, va, crate::zalsa_local::verif::revs(d, ca, true, crate::zalsa_local::verif::empty_derived()))))
    };
    let old = mk(if vk::any() { Some(11) } else { None }, va, ca);
    let new = mk(Some(12), cur, cur);
    if stored {
        store_real_for::<CGenRec>(old);
    }
    // SAFETY: single-threaded harness
    unsafe { EXEC_RESULT = new as *const Memo<CGenRec> as usize };
    let (z, l) = w.db.zalsas();
    let _ = *ing.fetch(&w.db, z, l, id);
    // SAFETY: single-threaded harness
    let (uses, last, calls) = unsafe { (USES, LAST_USED, EXEC_CALLS) };
    assert!(uses == 1 && last == Some(id));
    vcover!(calls == 0, "cache hit is reported");
    vcover!(calls == 1, "execution is reported");
    vcover!();
    std::mem::forget(ing);
    std::mem::forget(w);
}

// ---- eviction at the start of a revision: `reset_for_new_revision` of the function ingredient ----------
/// An eviction policy that asks for exactly one (harness-chosen) key to be evicted, once.
pub(crate) struct OneEvict;
pub(crate) static mut EVICT_KEY: Option<Id> = None;
impl EvictionPolicy for OneEvict {
    fn new(_: usize) -> Self {
        OneEvict
    }
    fn record_use(&self, _: Id) {}
    fn set_capacity(&mut self, _: usize) {}
    fn for_each_evicted(&mut self, mut cb: impl FnMut(Id)) {
        // SAFETY: single-threaded harness
        if let Some(k) = unsafe { EVICT_KEY } {
            cb(k)
        }
    }
}
pub(crate) struct CEv;
// SAFETY: `u32` output.
unsafe impl Configuration for CEv {
    const DEBUG_NAME: &'static str = "cev";
    const LOCATION: crate::ingredient::Location = crate::ingredient::Location { file: "", line: 0 };
    const PERSIST: bool = false;
    type DbView = HDb;
    type SalsaStruct<'db> = crate::input::verif::KIStruct;
    type Input<'db> = crate::input::verif::KIStruct;
    type Output<'db> = u32;
    type Eviction = OneEvict;
    const CYCLE_STRATEGY: CycleRecoveryStrategy = CycleRecoveryStrategy::Panic;
    fn values_equal<'db>(a: &u32, b: &u32) -> bool {
        a == b
    }
    fn id_to_input(_: &Zalsa, key: Id) -> crate::input::verif::KIStruct {
        crate::plumbing::FromId::from_id(key)
    }
    fn execute<'db>(_: &'db HDb, _: crate::input::verif::KIStruct) -> u32 {
        unreachable!()
    }
    fn cycle_initial<'db>(_: &'db HDb, _: Id, _: crate::input::verif::KIStruct) -> u32 {
        unreachable!()
    }
    fn recover_from_cycle<'db>(_: &'db HDb, _: &Cycle, _: &u32, v: u32, _: crate::input::verif::KIStruct) -> u32 {
        v
    }
    fn serialize<S>(_: &u32, _: S) -> Result<S::Ok, S::Error>
    where
        S: plumbing::serde::Serializer,
    {
        unimplemented!()
    }
    fn deserialize<'de, D>(_: D) -> Result<u32, D::Error>
    where
        D: plumbing::serde::Deserializer<'de>,
    {
        unimplemented!()
    }
}
impl crate::salsa_struct::SalsaStructInDb for crate::input::verif::KIStruct {
    type MemoIngredientMap = crate::memo_ingredient_indices::MemoIngredientSingletonIndex;
    const LEAF_TYPE_IDS: &'static [typeid::ConstTypeId] = &[typeid::ConstTypeId::of::<crate::input::verif::KIStruct>()];
    fn lookup_ingredient_index(_: &Zalsa) -> crate::memo_ingredient_indices::IngredientIndices {
        IngredientIndex::new(0).into()
    }
    fn entries(_: &Zalsa) -> impl Iterator<Item = DatabaseKeyIndex> + '_ {
        std::iter::empty()
    }
    fn cast(id: Id, _: std::any::TypeId) -> Option<Self> {
        Some(crate::plumbing::FromId::from_id(id))
    }
    // shape copied from `setup_input_struct!`
    unsafe fn memo_table(zalsa: &Zalsa, id: Id, current_revision: Revision) -> crate::table::memo::MemoTableWithTypes<'_> {
        // SAFETY: guaranteed by caller
        unsafe { zalsa.table().memos::<crate::input::Value<crate::input::verif::KI>>(id, current_revision) }
    }
}

//@ob id=G-EVICT-2 kind=C props=C05 timeout=1800 fn=IngredientImpl::reset_for_new_revision,IngredientImpl::evict_value_from_memo_for,Table::memos_mut,Table::ingredient_index
//@ pre: a function over an input struct stored on a real `Table` page, with a memo (value present, fully tracked or untracked) in the input's real per-slot memo table; the eviction policy (V-LRU-1 for the real `Lru`) names that key for eviction, or nothing
//@ post: at the start of a revision the named key's value is dropped iff its memo is fully tracked; its header is untouched and the memo stays in its slot; with nothing to evict nothing changes
#[cfg(kani)]
#[kani::proof]
#[kani::unwind(5)]
#[kani::stub(crate::sync::max_parallelism, crate::verif_support::one_core)]
fn g_evict_2_eviction_at_new_revision() {
    use crate::input::verif::KI;
    let mut z = crate::zalsa::verif::bare_zalsa();
    let mut input = crate::input::IngredientImpl::<KI>::new(IngredientIndex::new(0));
    let mi = MemoIngredientIndex::from_usize(0);
    crate::input::verif::register_memo_type::<Memo<CEv>>(&mut input, mi);
    let id = crate::input::verif::alloc_input_v(z.runtime(), &input, (1, 2), [Revision::start(), Revision::start()], [Durability::LOW, Durability::LOW]);
    let untracked: bool = vk::any();
    let origin = if untracked {
        crate::zalsa_local::OriginAndExtra::derived_untracked(std::iter::empty(), Default::default())
    } else {
        crate::zalsa_local::verif::empty_derived()
    };
    let (va, ca, d) = (vk::any_revision(), vk::any_revision(), vk::any_durability());
    let m: &'static mut Memo<CEv> = Box::leak(Box::new(Memo::<CEv>::new(Some(11), va, crate::zalsa_local::verif::revs(d, ca, true, origin))));
    let ptr = std::ptr::NonNull::from(&mut *m);
    // SAFETY: current revision supplied
    let old = unsafe { z.table().memos::<crate::input::Value<KI>>(id, z.current_revision()) }.insert(mi, ptr);
    assert!(old.is_none());
    let mut ing = IngredientImpl::<CEv>::new(IngredientIndex::new(3), crate::memo_ingredient_indices::verif::singleton(0), 1);
    let evict: bool = vk::any();
    // SAFETY: single-threaded harness
    unsafe { EVICT_KEY = if evict { Some(id) } else { None } };
    crate::ingredient::Ingredient::reset_for_new_revision(&mut ing, z.table_mut());
    // SAFETY: current revision supplied
    let got = unsafe { z.table().memos::<crate::input::Value<KI>>(id, z.current_revision()) }.get::<Memo<CEv>>(mi).unwrap();
    assert!(got == ptr);
    // SAFETY: leaked memo
    let m = unsafe { got.as_ref() };
    assert!(m.value.is_none() == (evict && !untracked));
    assert!(m.header.verified_at.load() == va && m.header.revisions.changed_at == ca && m.header.revisions.durability == d);
    vcover!(evict && !untracked, "value evicted");
    vcover!();
    std::mem::forget(ing);
    std::mem::forget(input);
    std::mem::forget(z);
}

//@off(cbmc-crashes-after-35-min) id=G-EVICT-3 kind=C props=C05 timeout=2400 fn=Zalsa::new_revision,Zalsa::evict_lru,Zalsa::insert_jar,IngredientImpl::reset_for_new_revision,IngredientImpl::requires_reset_for_new_revision
//@ pre: as G-EVICT-2, with the input ingredient and the function ingredient registered in a `Zalsa` the way `insert_jar` registers them (reset list built from `requires_reset_for_new_revision`); then a new revision starts, or `trigger_lru_eviction` (= `Zalsa::evict_lru`) is called
//@ post: the named key's value is gone (fully tracked memo), header untouched - eviction really runs at a new revision and on an explicit trigger; a new revision advances the revision by one, a trigger leaves it alone
#[cfg(kani)]
#[kani::proof]
#[kani::unwind(5)]
#[kani::stub(crate::sync::max_parallelism, crate::verif_support::one_core)]
#[kani::stub(crate::function::IngredientImpl::execute, stub_execute)]
fn g_evict_3_new_revision_and_trigger_evict() {
    use crate::input::verif::KI;
    let mut z = crate::zalsa::verif::bare_zalsa();
    let mut input = crate::input::IngredientImpl::<KI>::new(IngredientIndex::new(0));
    let mi = MemoIngredientIndex::from_usize(0);
    crate::input::verif::register_memo_type::<Memo<CEv>>(&mut input, mi);
    let id = crate::input::verif::alloc_input_v(z.runtime(), &input, (1, 2), [Revision::start(), Revision::start()], [Durability::LOW, Durability::LOW]);
    let (va, ca, d) = (vk::any_revision(), vk::any_revision(), vk::any_durability());
    let m: &'static mut Memo<CEv> = Box::leak(Box::new(Memo::<CEv>::new(Some(11), va, crate::zalsa_local::verif::revs(d, ca, true, crate::zalsa_local::verif::empty_derived()))));
    let ptr = std::ptr::NonNull::from(&mut *m);
    // SAFETY: current revision supplied
    let _ = unsafe { z.table().memos::<crate::input::Value<KI>>(id, z.current_revision()) }.insert(mi, ptr);
    z.verif_push(Box::new(input));
    z.verif_push(Box::new(IngredientImpl::<CEv>::new(IngredientIndex::new(1), crate::memo_ingredient_indices::verif::singleton(0), 1)));
    // SAFETY: single-threaded harness
    unsafe { EVICT_KEY = Some(id) };
    let r0 = z.current_revision();
    let trigger_only: bool = vk::any();
    if trigger_only {
        z.evict_lru();
        assert!(z.current_revision() == r0);
    } else {
        let r = z.new_revision();
        assert!(r == r0.next() && z.current_revision() == r);
    }
    // SAFETY: current revision supplied
    let got = unsafe { z.table().memos::<crate::input::Value<KI>>(id, z.current_revision()) }.get::<Memo<CEv>>(mi).unwrap();
    // SAFETY: leaked memo
    let m = unsafe { got.as_ref() };
    assert!(m.value.is_none());
    assert!(m.header.verified_at.load() == va && m.header.revisions.changed_at == ca);
    vcover!(trigger_only, "explicit trigger");
    vcover!();
    std::mem::forget(z);
}
