//! Child module of `crate::views`: an empty `Views` for the bare `Zalsa` (`Views::new::<Db>()` needs a
//! `dyn Database` vtable, which kani-compiler 0.68 cannot compile).
use super::*;

pub(crate) fn empty_views() -> Views {
    Views { source_type_id: TypeId::of::<()>(), view_casters: boxcar::Vec::new() }
}

/// The downcaster `Views::new::<Db>()` registers first, for a *sized* view type (the harness database itself).
pub(crate) fn caster<Db: crate::Database>() -> DatabaseDownCaster<Db> {
    DatabaseDownCaster(ViewCaster::new::<Db>(|db| db.ptr.cast::<Db>()), PhantomData)
}
