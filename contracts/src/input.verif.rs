//! Child module of `crate::input`: the generic input ingredient instantiated with a two-field
//! configuration (field storage shape = what `setup_input_struct!` generates: arrays indexed by field).
use super::*;
use crate::verif_support::{self as vk, vcover};

pub(crate) struct KI;
#[derive(Copy, Clone)]
pub(crate) struct KIStruct(Id);
impl FromId for KIStruct {
    fn from_id(id: Id) -> Self {
        KIStruct(id)
    }
}
impl AsId for KIStruct {
    fn as_id(&self) -> Id {
        self.0
    }
}
impl Configuration for KI {
    const DEBUG_NAME: &'static str = "KI";
    const FIELD_DEBUG_NAMES: &'static [&'static str] = &["a", "b"];
    const LOCATION: crate::ingredient::Location = crate::ingredient::Location { file: "", line: 0 };
    const PERSIST: bool = false;
    type Singleton = crate::input::singleton::NotSingleton;
    type Struct = KIStruct;
    type Fields = (u32, u32);
    type Revisions = [Revision; 2];
    type Durabilities = [Durability; 2];
    fn serialize<S>(_: &Self::Fields, _: S) -> Result<S::Ok, S::Error>
    where
        S: plumbing::serde::Serializer,
    {
        unimplemented!()
    }
    fn deserialize<'de, D>(_: D) -> Result<Self::Fields, D::Error>
    where
        D: plumbing::serde::Deserializer<'de>,
    {
        unimplemented!()
    }
}

/// One allocated input on a real `Table` page of the runtime, with the given per-field stamps.
pub(crate) fn alloc_input(rt: &Runtime, ing: &IngredientImpl<KI>, revs: [Revision; 2], durs: [Durability; 2]) -> Id {
    alloc_input_v(rt, ing, (10, 20), revs, durs)
}
pub(crate) fn alloc_input_v(rt: &Runtime, ing: &IngredientImpl<KI>, fields: (u32, u32), revs: [Revision; 2], durs: [Durability; 2]) -> Id {
    let types = ing.memo_table_types.clone();
    let page = rt.table().push_page::<Value<KI>>(ing.ingredient_index, types.clone());
    // SAFETY: unique writer
    let (id, _) = unsafe {
        rt.table().page::<Value<KI>>(page).allocate(page, |_| Value::<KI> {
            fields,
            revisions: revs,
            durabilities: durs,
            // SAFETY: same memo table types as the ingredient
            memos: unsafe { MemoTable::new(&types) },
        })
    }
    .ok()
    .unwrap();
    id
}
/// Current field values of an input (no read is recorded).
pub(crate) fn fields_of(z: &Zalsa, id: Id) -> (u32, u32) {
    z.table().get::<Value<KI>>(id).fields
}

//@ob id=K-IN-1 kind=C props=C01,C02,C03 timeout=600 fn=IngredientImpl::set_field
//@ pre: real Runtime with any monotone revision vector; an input with two fields with any old revisions (<= current) and old durabilities; write field fi (symbolic) whose old durability is writable, with an optional new durability (any of the four)
//@ post: the setter's return value is passed through and only `fields` is handed to it; revisions[fi] := current; revisions[other] untouched; durabilities[fi] := new.unwrap_or(old); durabilities[other] untouched; the *old* durability is reported: levels 1..=old := current, levels above old untouched (a LOW write touches no level > 0)
#[cfg_attr(kani, kani::proof)]
#[cfg_attr(kani, kani::unwind(5))]
#[cfg_attr(salsa_verif_replay, test)]
fn k_in_1_set_field() {
    let (mut rt, r) = crate::runtime::verif::any_runtime();
    let mut ing = IngredientImpl::<KI>::new(IngredientIndex::new(0));
    let (fr0, fr1) = (vk::any_revision(), vk::any_revision());
    vk::assume(fr0 <= r[0] && fr1 <= r[0]);
    let (d0, d1) = (vk::any_durability(), vk::any_durability());
    let id = alloc_input(&rt, &ing, [fr0, fr1], [d0, d1]);
    let fi: usize = if vk::any() { 1 } else { 0 };
    let old_d = [d0, d1][fi];
    vk::assume(old_d != Durability::NEVER_CHANGE);
    let newd: Option<Durability> = if vk::any() { Some(vk::any_durability()) } else { None };
    let nv: u32 = vk::any();
    let prev = ing.set_field(&mut rt, KIStruct(id), fi, newd, |f| {
        if fi == 0 { std::mem::replace(&mut f.0, nv) } else { std::mem::replace(&mut f.1, nv) }
    });
    assert!(prev == if fi == 0 { 10 } else { 20 });
    let v = rt.table().get::<Value<KI>>(id);
    assert!(v.revisions[fi] == r[0]);
    assert!(v.revisions[1 - fi] == [fr0, fr1][1 - fi]);
    assert!(v.durabilities[fi] == newd.unwrap_or(old_d));
    assert!(v.durabilities[1 - fi] == [d0, d1][1 - fi]);
    assert!(if fi == 0 { v.fields == (nv, 20) } else { v.fields == (10, nv) });
    let after = crate::runtime::verif::revs_of(&rt);
    assert!(after[0] == r[0]);
    let mut lvl = 1;
    while lvl < 3 {
        if lvl <= old_d.index() {
            assert!(after[lvl] == r[0]);
        } else {
            assert!(after[lvl] == r[lvl]);
        }
        lvl += 1;
    }
    // what a dependent of durability <= old_d sees: something of its durability changed now
    assert!(rt.last_changed_revision(old_d) == r[0]);
    vcover!();
    std::mem::forget(rt);
    std::mem::forget(ing);
}

//@ob id=K-IN-2 kind=C props=C02 timeout=600 fn=IngredientImpl::set_field flags=should_panic
//@ pre: as K-IN-1 but the written field's current durability is NEVER_CHANGE (any new durability, any other field state)
//@ post: panics with "never-changing inputs cannot be mutated" as the only failure, i.e. before the setter runs (the setter would trip a different assertion) and before any revision or durability is updated
//@ panic: never-changing inputs cannot be mutated
#[cfg_attr(kani, kani::proof)]
#[cfg_attr(kani, kani::unwind(5))]
#[cfg_attr(kani, kani::should_panic)]
#[cfg_attr(salsa_verif_replay, test)]
#[cfg_attr(salsa_verif_replay, should_panic(expected = "never-changing inputs cannot be mutated"))]
fn k_in_2_never_change_write_panics() {
    let (mut rt, r) = crate::runtime::verif::any_runtime();
    let mut ing = IngredientImpl::<KI>::new(IngredientIndex::new(0));
    let fi: usize = if vk::any() { 1 } else { 0 };
    let other = vk::any_durability();
    let durs = if fi == 0 { [Durability::NEVER_CHANGE, other] } else { [other, Durability::NEVER_CHANGE] };
    let id = alloc_input(&rt, &ing, [Revision::start(), Revision::start()], durs);
    let newd: Option<Durability> = if vk::any() { Some(vk::any_durability()) } else { None };
    let _ = r;
    ing.set_field(&mut rt, KIStruct(id), fi, newd, |_f| -> u32 {
        // reached only if the guard is gone: fail with a *different* message
        assert!(false, "setter of a never-change field was run");
        0
    });
    // frozen state (checked when the panic does not happen: then these are additional failures)
    let after = crate::runtime::verif::revs_of(&rt);
    assert!(after == r, "revision vector changed by a rejected write");
    std::mem::forget(rt);
    std::mem::forget(ing);
}

//@ob id=K-IN-3 kind=B bound=one-IndexSet-insert props=C01,C02,C03 timeout=900 fn=IngredientImpl::field,ZalsaLocal::report_tracked_read_simple,IngredientIndex::successor
//@ pre: an input whose two fields have any (revision, durability); an active query frame; read field fi
//@ post: the frame's stamp becomes (min(NEVER_CHANGE, durability[fi]), max(start, revision[fi])) - i.e. exactly the stamp of *that* field, not the other; the returned fields are the stored ones
#[cfg_attr(kani, kani::proof)]
#[cfg_attr(kani, kani::unwind(6))]
#[cfg_attr(salsa_verif_replay, test)]
fn k_in_3_field_read_reports_field_stamp() {
    let z = crate::zalsa::verif::bare_zalsa();
    let local = crate::zalsa_local::verif::local_static();
    let ing = IngredientImpl::<KI>::new(IngredientIndex::new(0));
    let (fr0, fr1) = (vk::any_revision(), vk::any_revision());
    let (d0, d1) = (vk::any_durability(), vk::any_durability());
    let id = alloc_input(z.runtime(), &ing, [fr0, fr1], [d0, d1]);
    let fi: usize = if vk::any() { 1 } else { 0 };
    let g = local.push_query(vk::key(7, 1));
    let f = ing.field(&z, &local, KIStruct(id), fi);
    assert!(*f == (10, 20));
    let (_, stamp) = local.active_query().unwrap();
    assert!(stamp.durability == [d0, d1][fi]);
    assert!(stamp.changed_at == [fr0, fr1][fi]);
    vcover!();
    std::mem::forget(g);
    std::mem::forget(local);
    std::mem::forget(z);
    std::mem::forget(ing);
}

/// Register memo slot `mi` of the input struct for memo type `M` (what `NewMemoIngredientIndices::create` does
/// when a tracked function over this struct is registered).
pub(crate) fn register_memo_type<M: crate::table::memo::Memo>(ing: &mut IngredientImpl<KI>, mi: crate::zalsa::MemoIngredientIndex) {
    Arc::get_mut(&mut ing.memo_table_types).unwrap().set(mi, crate::table::memo::MemoEntryType::of::<M>());
}
