//! Child module of `crate::input::input_field`.
use super::*;
use crate::input::verif::{alloc_input, KI};
use crate::verif_support::{self as vk, vcover};
use crate::zalsa::verif::oracle::dangling_db;

//@ob id=K-IN-4 kind=C props=C01,C03 timeout=600 fn=FieldIngredientImpl::maybe_changed_after
//@ pre: an input whose two fields have any revisions; field ingredient for field fi; any query revision
//@ post: Changed <=> revisions[fi] > revision (both directions; the other field's revision is irrelevant)
#[cfg_attr(kani, kani::proof)]
#[cfg_attr(kani, kani::unwind(5))]
#[cfg_attr(salsa_verif_replay, test)]
fn k_in_4_field_maybe_changed_after() {
    let z = crate::zalsa::verif::bare_zalsa();
    let ing = IngredientImpl::<KI>::new(IngredientIndex::new(0));
    let (fr0, fr1) = (vk::any_revision(), vk::any_revision());
    let id = alloc_input(z.runtime(), &ing, [fr0, fr1], [vk::any_durability(), vk::any_durability()]);
    let fi: usize = if vk::any() { 1 } else { 0 };
    let f = FieldIngredientImpl::<KI>::new(IngredientIndex::new(0), fi);
    assert!(f.index == IngredientIndex::new(1 + fi as u32));
    let rev = vk::any_revision();
    // SAFETY: db is unused by this ingredient
    let r = unsafe { Ingredient::maybe_changed_after(&f, &z, dangling_db(), id, rev) };
    assert!(r.is_unchanged() == !([fr0, fr1][fi] > rev));
    vcover!();
    std::mem::forget(z);
    std::mem::forget(ing);
}

/// The field ingredient `field_index` of the harness input struct registered at `struct_index`.
pub(crate) fn new_field(struct_index: IngredientIndex, field_index: usize) -> FieldIngredientImpl<KI> {
    FieldIngredientImpl::<KI>::new(struct_index, field_index)
}
