//! Child module of `crate::zalsa_local`: obligations on the stored-dependency-edge encoding
//! (`QueryEdge`, `PackedQueryEdge`, `QueryOriginTag`, `OriginAndExtraTag`, `OriginAndExtra`), the
//! cancellation token and the query stack guard.
use super::*;
use crate::verif_support::{self as vk, vcover};

/// Every `QueryEdge`: any raw (possibly tagged) ingredient word, any valid slot index, any generation.
pub(crate) fn any_edge() -> QueryEdge {
    let ing: u32 = vk::any();
    let idx: u32 = vk::any();
    vk::assume(idx < Id::MAX_U32);
    let g: u32 = vk::any();
    // SAFETY: any u32 is a valid tagged index
    QueryEdge { index: idx, generation: g, ingredient: unsafe { IngredientIndex::new_unchecked(ing) } }
}
pub(crate) fn edge_fits(e: QueryEdge) -> bool {
    // taken from the property statement / type documentation: 12 ingredient bits, 20 generation bits,
    // outputs (tag bit 31) never fit
    e.ingredient.as_u32() <= 0xFFF && e.generation <= 0xFFFFF
}
/// An extra block with symbolic `cycle_converged` and iteration stamp (the scalar part of the extra data).
fn any_extra_inner() -> (QueryRevisionsExtraInner, bool, IterationStamp) {
    let cc: bool = vk::any();
    let it: u8 = vk::any();
    let can: u8 = vk::any();
    let stamp = IterationStamp::initial(can);
    let _ = it;
    let mut x = QueryRevisionsExtraInner::empty();
    x.cycle_converged = cc;
    x.iteration = stamp.into();
    (x, cc, stamp)
}

#[cfg(kani)]
impl kani::Arbitrary for QueryEdge {
    fn any() -> Self {
        any_edge()
    }
}
#[cfg(kani)]
impl kani::Arbitrary for PackedQueryEdge {
    fn any() -> Self {
        PackedQueryEdge { index: kani::any(), metadata: kani::any() }
    }
}

//@ob id=K-EDGE-1a kind=C props=C25,C07 fn=QueryEdge::input,QueryEdge::output,QueryEdge::key,QueryEdge::kind,QueryEdge::id
//@ pre: any valid DatabaseKeyIndex (ingredient <= 0x7FFF_FFFF, index < Id::MAX_U32, any generation)
//@ post: kind(input(k)) == Input && key(input(k)) == k; kind(output(k)) == Output && key(output(k)) == k; input(k) != output(k); keys differing only in generation give different edges
#[cfg_attr(kani, kani::proof)]
#[cfg_attr(salsa_verif_replay, test)]
fn k_edge_1a_key_kind_roundtrip() {
    let k = vk::any_key();
    let o = QueryEdge::output(k);
    assert!(matches!(o.kind(), QueryEdgeKind::Output));
    assert!(o.key() == k);
    let i = QueryEdge::input(k);
    assert!(matches!(i.kind(), QueryEdgeKind::Input));
    assert!(i.key() == k);
    assert!(i != o);
    // the generation is part of an edge's identity
    let g2: u32 = vk::any();
    let k2 = DatabaseKeyIndex::new(k.ingredient_index(), k.key_index().with_generation(g2));
    assert!((QueryEdge::input(k2) == i) == (g2 == k.key_index().generation()));
    vcover!();
}

//@ob id=K-EDGE-1b kind=C props=C25 fn=QueryEdge::input,QueryEdge::output,QueryEdge::key,QueryEdge::kind flags=modular
//@ pre: as K-EDGE-1a, but `IngredientIndex::with_tag` is replaced by its verified contract (stub_verified)
//@ post: as K-EDGE-1a (caller checked against the callee's contract, not its body)
#[cfg(kani)]
#[kani::proof]
#[kani::stub_verified(IngredientIndex::with_tag)]
fn k_edge_1b_modular() {
    let k = vk::any_key();
    let o = QueryEdge::output(k);
    assert!(matches!(o.kind(), QueryEdgeKind::Output));
    assert!(o.key() == k);
    let i = QueryEdge::input(k);
    assert!(matches!(i.kind(), QueryEdgeKind::Input));
    assert!(i.key() == k);
    kani::cover!(true, "end-of-harness reachable");
}

//@ob id=K-EDGE-2a kind=C props=C25 fn=PackedQueryEdge::new
//@ pre: any QueryEdge (full 96-bit domain)
//@ post: (contract on the real fn) Some(p) <=> raw ingredient <= 0xFFF && generation <= 0xFFFFF; then p.index == e.index && p.metadata == generation | ingredient << 20
#[cfg(kani)]
#[kani::proof_for_contract(PackedQueryEdge::new)]
fn k_edge_2a_packed_new_contract() {
    let e: QueryEdge = kani::any();
    let _ = PackedQueryEdge::new(e);
}

//@ob id=K-EDGE-2b kind=C props=C25 fn=PackedQueryEdge::edge
//@ pre: any PackedQueryEdge (full 64-bit domain)
//@ post: (contract on the real fn) index kept, generation == metadata & 0xFFFFF, raw ingredient == metadata >> 20
#[cfg(kani)]
#[kani::proof_for_contract(PackedQueryEdge::edge)]
fn k_edge_2b_packed_edge_contract() {
    let p: PackedQueryEdge = kani::any();
    let _ = p.edge();
}

//@ob id=K-EDGE-2c kind=C props=C25 fn=PackedQueryEdge::new,PackedQueryEdge::edge
//@ pre: any QueryEdge, incl. ingredient 0xFFF/0x1000, generation 0xFFFFF/0x100000, tagged (output) ingredients
//@ post: new(e) is Some exactly when e fits (12/20-bit limits); edge(new(e)) == e; an output edge never fits
#[cfg_attr(kani, kani::proof)]
#[cfg_attr(salsa_verif_replay, test)]
fn k_edge_2c_packed_roundtrip() {
    let e = any_edge();
    match PackedQueryEdge::new(e) {
        Some(p) => {
            assert!(edge_fits(e));
            assert!(p.edge() == e);
            assert!(matches!(e.kind(), QueryEdgeKind::Input));
        }
        None => assert!(!edge_fits(e)),
    }
    if matches!(e.kind(), QueryEdgeKind::Output) {
        assert!(PackedQueryEdge::new(e).is_none());
    }
    vcover!();
}

//@ob id=K-EDGE-3 kind=C props=C25 fn=QueryOriginTag::assigned,QueryOriginTag::derived,QueryOriginTag::kind,QueryOriginTag::layout,OriginAndExtraTag::without_extra,OriginAndExtraTag::with_extra,OriginAndExtraTag::layout,OriginAndExtraTag::origin
//@ pre: every combination origin kind {assigned, derived, derived-untracked} x edge layout {packed, wide} x extra {no, yes}
//@ post: decoding the tag byte gives back exactly the kind, the edge layout and the extra flag
#[cfg_attr(kani, kani::proof)]
#[cfg_attr(salsa_verif_replay, test)]
fn k_edge_3_tags() {
    let kind: u8 = vk::any();
    vk::assume(kind < 3);
    let wide: bool = vk::any();
    let with_extra: bool = vk::any();
    let layout = if wide { QueryEdgeLayout::Wide } else { QueryEdgeLayout::Packed };
    let ot = match kind {
        0 => QueryOriginTag::assigned(),
        1 => QueryOriginTag::derived(DerivedOriginKind::Derived, layout),
        _ => QueryOriginTag::derived(DerivedOriginKind::DerivedUntracked, layout),
    };
    let t = if with_extra { OriginAndExtraTag::with_extra(ot) } else { OriginAndExtraTag::without_extra(ot) };
    assert!(matches!(t.layout(), OriginAndExtraLayout::WithExtra) == with_extra);
    let back = t.origin();
    assert!(back.0 == ot.0);
    match back.kind() {
        QueryOriginKind::Assigned => assert!(kind == 0),
        QueryOriginKind::Derived => assert!(kind == 1),
        QueryOriginKind::DerivedUntracked => assert!(kind == 2),
    }
    if kind != 0 {
        assert!(matches!(back.layout(), QueryEdgeLayout::Wide) == wide);
    }
    vcover!();
}

/// What an origin round-trip harness reads back (split so that each CBMC query stays small).
#[derive(Copy, Clone, PartialEq, Eq)]
enum Part {
    /// kind, extra, forward iteration (+ `len`), packed <=> all fit, drop
    Forward,
    /// backward iteration
    Backward,
    /// `inputs()` / `outputs()` partition the edges in order
    Views,
}

/// K-ORIGIN-n body: build a derived origin from `N` fully symbolic edges and read it back.
fn origin_roundtrip<const N: usize>(with_extra: bool, part: Part) {
    let mut es = [QueryEdge::input(vk::key(0, 0)); N];
    let mut i = 0;
    while i < N {
        es[i] = any_edge();
        i += 1;
    }
    let untracked: bool = vk::any();
    let (extra, cc, stamp) = if with_extra {
        let (x, cc, stamp) = any_extra_inner();
        (QueryRevisionsExtra(Some(x)), cc, stamp)
    } else {
        (QueryRevisionsExtra(None), false, IterationStamp::default())
    };
    let o = if untracked {
        OriginAndExtra::derived_untracked(es.iter().copied(), extra)
    } else {
        OriginAndExtra::derived(es.iter().copied(), extra)
    };
    let origin = o.origin();
    let edges = match origin {
        QueryOriginRef::Derived(e) => {
            assert!(!untracked);
            e
        }
        QueryOriginRef::DerivedUntracked(e) => {
            assert!(untracked);
            e
        }
        QueryOriginRef::Assigned(_) => unreachable!(),
    };
    match part {
        Part::Forward => {
            assert!(o.is_derived_untracked() == untracked);
            // extra data
            assert!(o.extra().is_some() == with_extra);
            if with_extra {
                let x = o.extra().unwrap();
                assert!(x.cycle_converged == cc);
                assert!(x.iteration.load() == stamp);
                assert!(x.tracked_struct_ids.is_empty() && x.cycle_heads.is_empty());
            }
            // same edges, same order, same kinds
            let mut it = edges.iter();
            assert!(it.len() == N);
            let mut i = 0;
            while i < N {
                let e = it.next();
                assert!(e == Some(es[i]));
                assert!(e.unwrap().kind() == es[i].kind());
                i += 1;
            }
            assert!(it.next().is_none());
            // compact layout <=> every edge fits
            let mut all_fit = true;
            let mut i = 0;
            while i < N {
                all_fit = all_fit && edge_fits(es[i]);
                i += 1;
            }
            assert!(matches!(edges.data, QueryEdgesData::Packed(_)) == all_fit);
            drop(o); // deallocation is part of the obligation (size/alignment/double free are CBMC checks)
        }
        Part::Backward => {
            let mut it = edges.iter().rev();
            let mut i = N;
            while i > 0 {
                assert!(it.next() == Some(es[i - 1]));
                i -= 1;
            }
            assert!(it.next().is_none());
            std::mem::forget(o);
        }
        Part::Views => {
            let mut ins = origin.inputs();
            let mut outs = origin.outputs();
            let mut i = 0;
            while i < N {
                match es[i].kind() {
                    QueryEdgeKind::Input => assert!(ins.next() == Some(es[i].key())),
                    QueryEdgeKind::Output => assert!(outs.next() == Some(es[i].key())),
                }
                i += 1;
            }
            assert!(ins.next().is_none());
            assert!(outs.next().is_none());
            drop(ins);
            drop(outs);
            std::mem::forget(o);
        }
    }
    vcover!();
}

fn origin_empty(with_extra: bool) {
    let untracked: bool = vk::any();
    let (extra, cc, stamp) = if with_extra {
        let (x, cc, stamp) = any_extra_inner();
        (QueryRevisionsExtra(Some(x)), cc, stamp)
    } else {
        (QueryRevisionsExtra(None), false, IterationStamp::default())
    };
    let o = if untracked {
        OriginAndExtra::derived_untracked(std::iter::empty(), extra)
    } else {
        OriginAndExtra::derived(std::iter::empty(), extra)
    };
    assert!(o.is_derived_untracked() == untracked);
    assert!(matches!(o.origin(), QueryOriginRef::DerivedUntracked(_)) == untracked);
    assert!(matches!(o.origin(), QueryOriginRef::Derived(_)) == !untracked);
    assert!(o.extra().is_some() == with_extra);
    if with_extra {
        let x = o.extra().unwrap();
        assert!(x.cycle_converged == cc);
        assert!(x.iteration.load() == stamp);
    }
    let edges = o.origin().edges();
    assert!(edges.iter().len() == 0);
    assert!(edges.iter().next().is_none());
    assert!(edges.iter().rev().next().is_none());
    assert!(o.origin().inputs().next().is_none());
    assert!(o.origin().outputs().next().is_none());
    assert!(matches!(edges.data, QueryEdgesData::Packed(_)));
    vcover!();
    drop(o);
}

//@ob id=K-ORIGIN-0 kind=C props=C25,C23 fn=OriginAndExtra::derived,OriginAndExtra::derived_untracked,OriginAndExtra::new_derived_with_kind,OriginAndExtra::new_derived_without_extra,OriginAndExtra::allocate_derived_with_header,OriginAndExtra::origin,OriginAndExtra::extra,OriginAndExtra::drop,QueryEdges::iter,QueryOriginRef::inputs,QueryOriginRef::outputs,SliceWithHeader::allocate
//@ pre: empty edge sequence (zero-size allocation: dangling pointer path); derived / derived-untracked; no extra
//@ post: kind kept; no extra; no edges forwards/backwards; inputs()/outputs() empty; compact layout; drop performs no deallocation error
#[cfg_attr(kani, kani::proof)]
#[cfg_attr(kani, kani::unwind(3))]
#[cfg_attr(salsa_verif_replay, test)]
fn k_origin_0() {
    origin_empty(false);
}

//@ob id=K-ORIGIN-0X kind=C props=C25,C23 fn=OriginAndExtra::new_derived_with_extra,OriginAndExtra::extra,OriginAndExtra::origin,OriginAndExtra::drop
//@ pre: empty edge sequence with extra data (symbolic cycle_converged, iteration stamp) as allocation header
//@ post: as K-ORIGIN-0, and the extra block reads back unchanged; drop frees exactly the allocation
#[cfg_attr(kani, kani::proof)]
#[cfg_attr(kani, kani::unwind(3))]
#[cfg_attr(salsa_verif_replay, test)]
fn k_origin_0x() {
    origin_empty(true);
}

//@ob id=K-ORIGIN-1F kind=B bound=sequence-length=1 props=C25,C23 timeout=900 fn=OriginAndExtra::derived,OriginAndExtra::derived_untracked,OriginAndExtra::allocate_derived_with_header,OriginAndExtra::origin,OriginAndExtra::drop,QueryEdges::iter,QueryEdgeIter::next,SliceWithHeader::allocate,SliceWithHeaderBuilder::push,SliceWithHeaderBuilder::finish,SliceWithHeader::slice
//@ pre: 1 fully symbolic edge (any raw ingredient incl. tag bit, any index, any generation); derived / untracked; no extra
//@ post: kind kept; exactly that edge with that kind, forwards; len == 1; compact layout <=> it fits; drop frees exactly the allocation
#[cfg_attr(kani, kani::proof)]
#[cfg_attr(kani, kani::unwind(4))]
#[cfg_attr(salsa_verif_replay, test)]
fn k_origin_1f() {
    origin_roundtrip::<1>(false, Part::Forward);
}

//@ob id=K-ORIGIN-1B kind=B bound=sequence-length=1 props=C25 fn=QueryEdgeIter::next_back,QueryEdges::iter,OriginAndExtra::origin
//@ pre: as K-ORIGIN-1F
//@ post: backward iteration yields exactly that edge, then None
#[cfg_attr(kani, kani::proof)]
#[cfg_attr(kani, kani::unwind(4))]
#[cfg_attr(salsa_verif_replay, test)]
fn k_origin_1b() {
    origin_roundtrip::<1>(false, Part::Backward);
}

//@ob id=K-ORIGIN-1V kind=B bound=sequence-length=1 props=C25 fn=QueryOriginRef::inputs,QueryOriginRef::outputs,QueryEdges::iter_outputs,output_edges
//@ pre: as K-ORIGIN-1F
//@ post: inputs() and outputs() partition the edges: the edge's key appears in exactly the view of its kind
#[cfg_attr(kani, kani::proof)]
#[cfg_attr(kani, kani::unwind(4))]
#[cfg_attr(salsa_verif_replay, test)]
fn k_origin_1v() {
    origin_roundtrip::<1>(false, Part::Views);
}

//@ob id=K-ORIGIN-1X kind=B bound=sequence-length=1 props=C25,C23 timeout=900 fn=OriginAndExtra::new_derived_with_extra,OriginAndExtra::extra,OriginAndExtra::origin,OriginAndExtra::drop
//@ pre: as K-ORIGIN-1F but with extra data co-allocated before the edges
//@ post: as K-ORIGIN-1F, and the extra block reads back unchanged
#[cfg_attr(kani, kani::proof)]
#[cfg_attr(kani, kani::unwind(4))]
#[cfg_attr(salsa_verif_replay, test)]
fn k_origin_1x() {
    origin_roundtrip::<1>(true, Part::Forward);
}

//@ob id=K-ORIGIN-2F kind=B bound=sequence-length=2 tier=thorough timeout=2400 props=C25,C23 fn=OriginAndExtra::derived,OriginAndExtra::derived_untracked,OriginAndExtra::allocate_derived_with_header,OriginAndExtra::origin,OriginAndExtra::drop
//@ pre: 2 fully symbolic edges (covers: wide spill after a packed prefix, packed after packed, wide first); no extra
//@ post: as K-ORIGIN-1F for both edges in order
#[cfg_attr(kani, kani::proof)]
#[cfg_attr(kani, kani::unwind(5))]
#[cfg_attr(salsa_verif_replay, test)]
fn k_origin_2f() {
    origin_roundtrip::<2>(false, Part::Forward);
}

//@ob id=K-ORIGIN-2B kind=B bound=sequence-length=2 tier=thorough timeout=2400 props=C25 fn=QueryEdgeIter::next_back
//@ pre: 2 fully symbolic edges
//@ post: backward iteration yields them in reverse order
#[cfg_attr(kani, kani::proof)]
#[cfg_attr(kani, kani::unwind(5))]
#[cfg_attr(salsa_verif_replay, test)]
fn k_origin_2b() {
    origin_roundtrip::<2>(false, Part::Backward);
}

//@ob id=K-ORIGIN-2V kind=B bound=sequence-length=2 tier=thorough timeout=2400 props=C25 fn=QueryOriginRef::inputs,QueryOriginRef::outputs
//@ pre: 2 fully symbolic edges
//@ post: inputs()/outputs() partition them, each view in recorded order
#[cfg_attr(kani, kani::proof)]
#[cfg_attr(kani, kani::unwind(5))]
#[cfg_attr(salsa_verif_replay, test)]
fn k_origin_2v() {
    origin_roundtrip::<2>(false, Part::Views);
}

//@ob id=K-ORIGIN-2X kind=B bound=sequence-length=2 tier=thorough timeout=2400 props=C25,C23 fn=OriginAndExtra::new_derived_with_extra,OriginAndExtra::origin,OriginAndExtra::drop
//@ pre: 2 fully symbolic edges with extra data
//@ post: as K-ORIGIN-2F plus extra preserved
#[cfg_attr(kani, kani::proof)]
#[cfg_attr(kani, kani::unwind(5))]
#[cfg_attr(salsa_verif_replay, test)]
fn k_origin_2x() {
    origin_roundtrip::<2>(true, Part::Forward);
}

//@off(cbmc-does-not-finish) id=K-ORIGIN-3F kind=B bound=sequence-length=3 tier=thorough timeout=3600 props=C25,C23 fn=OriginAndExtra::derived,OriginAndExtra::allocate_derived_with_header,OriginAndExtra::origin,OriginAndExtra::drop
//@ pre: 3 fully symbolic edges; no extra
//@ post: as K-ORIGIN-1F for all three edges in order
#[cfg_attr(kani, kani::proof)]
#[cfg_attr(kani, kani::unwind(6))]
#[cfg_attr(salsa_verif_replay, test)]
fn k_origin_3f() {
    origin_roundtrip::<3>(false, Part::Forward);
}

//@ob id=K-ORIGIN-A kind=C props=C25,C10,C23 fn=OriginAndExtra::assigned,OriginAndExtra::assigned_with_extra,OriginAndExtra::get_or_insert_extra,OriginAndExtra::origin,OriginAndExtra::extra,OriginAndExtra::drop
//@ pre: any valid assigning key
//@ post: origin() is Assigned(key) with no edges; after get_or_insert_extra (boxed form) the key is unchanged, extra is present and writable; drop frees the box
#[cfg_attr(kani, kani::proof)]
#[cfg_attr(kani, kani::unwind(4))]
#[cfg_attr(salsa_verif_replay, test)]
fn k_origin_a_assigned() {
    let k = vk::any_key();
    let mut o = OriginAndExtra::assigned(k);
    {
        let QueryOriginRef::Assigned(k2) = o.origin() else { panic!() };
        assert!(k2 == k);
        assert!(o.origin().edges().iter().next().is_none());
        assert!(o.extra().is_none());
    }
    let cc: bool = vk::any();
    o.get_or_insert_extra().cycle_converged = cc;
    {
        let QueryOriginRef::Assigned(k2) = o.origin() else { panic!() };
        assert!(k2 == k);
    }
    assert!(o.extra().unwrap().cycle_converged == cc);
    assert!(!o.is_derived_untracked());
    vcover!();
    drop(o);
}

//@ob id=K-ORIGIN-C kind=B bound=sequence-length=1 props=C25,C11 timeout=1200 fn=OriginAndExtra::clear_edges
//@ pre: derived / derived-untracked origin holding 1 symbolic edge, with or without extra data (symbolic cycle_converged, iteration)
//@ post: no edges remain; origin kind kept; extra presence and contents kept
#[cfg_attr(kani, kani::proof)]
#[cfg_attr(kani, kani::unwind(4))]
#[cfg_attr(salsa_verif_replay, test)]
fn k_origin_c_clear_edges() {
    let e = any_edge();
    let with_extra: bool = vk::any();
    let untracked: bool = vk::any();
    let (x, cc, stamp) = any_extra_inner();
    let extra = QueryRevisionsExtra(if with_extra { Some(x) } else { std::mem::forget(x); None });
    let mut o = if untracked {
        OriginAndExtra::derived_untracked([e].into_iter(), extra)
    } else {
        OriginAndExtra::derived([e].into_iter(), extra)
    };
    o.clear_edges();
    assert!(o.extra().is_some() == with_extra);
    if with_extra {
        assert!(o.extra().unwrap().cycle_converged == cc);
        assert!(o.extra().unwrap().iteration.load() == stamp);
    }
    assert!(o.is_derived_untracked() == untracked);
    assert!(o.origin().edges().iter().next().is_none());
    assert!(matches!(o.origin(), QueryOriginRef::Derived(_)) == !untracked);
    vcover!();
    std::mem::forget(o);
}

//@ob id=K-TOKEN-1 kind=C props=C21 fn=CancellationToken::cancel,CancellationToken::is_cancelled,CancellationToken::set_cancellation_disabled,CancellationToken::should_trigger_local_cancellation,CancellationToken::reset
//@ pre: all 256 byte states of the token x 4 operations
//@ post: trigger <=> cancelled && !disabled (state == 0b01); cancel sets only the cancelled bit; set_cancellation_disabled sets/clears only the disabled bit and returns its previous value; reset clears both
#[cfg_attr(kani, kani::proof)]
#[cfg_attr(salsa_verif_replay, test)]
fn k_token_1() {
    let t = CancellationToken::default();
    let init: u8 = vk::any();
    t.0.store(init, Ordering::Relaxed);
    let c0 = init & 1 != 0;
    let d0 = init & 2 != 0;
    assert!(t.is_cancelled() == c0);
    assert!(t.should_trigger_local_cancellation() == (init == 1));
    let op: u8 = vk::any();
    vk::assume(op < 4);
    match op {
        0 => {
            t.cancel();
            assert!(t.0.load(Ordering::Relaxed) == init | 1);
        }
        1 => {
            let prev = t.set_cancellation_disabled(true);
            assert!(prev == d0);
            assert!(t.0.load(Ordering::Relaxed) == init | 2);
            assert!(!t.should_trigger_local_cancellation());
        }
        2 => {
            let prev = t.set_cancellation_disabled(false);
            assert!(prev == d0);
            assert!(t.0.load(Ordering::Relaxed) == init & !2);
        }
        _ => {
            t.reset();
            assert!(t.0.load(Ordering::Relaxed) == 0);
            assert!(!t.is_cancelled() && !t.should_trigger_local_cancellation());
        }
    }
    vcover!();
}

// ---------------------------------------------------------------------------------------------
// Builders shared with the `function::*` harness modules.
// ---------------------------------------------------------------------------------------------
/// `QueryRevisions` with the given scalar state.
pub(crate) fn revs(d: Durability, c: Revision, vf: bool, origin: OriginAndExtra) -> QueryRevisions {
    QueryRevisions {
        changed_at: c,
        durability: d,
        origin_and_extra: origin,
        accumulated_inputs: Default::default(),
        verified_final: AtomicBool::new(vf),
    }
}
/// Extra data holding one cycle head (`head`, `stamp`) and iteration `stamp`.
pub(crate) fn extra_with_head(head: DatabaseKeyIndex, stamp: IterationStamp) -> QueryRevisionsExtra {
    QueryRevisionsExtra::new(Default::default(), ThinVec::new(), CycleHeads::initial(head, stamp), stamp, false)
}
/// Extra data that carries (empty) accumulated-values storage only when `force` is set.
pub(crate) fn extra_forced() -> QueryRevisionsExtra {
    QueryRevisionsExtra::new(Default::default(), ThinVec::new(), empty_cycle_heads().clone(), IterationStamp::default(), true)
}
pub(crate) fn empty_derived() -> OriginAndExtra {
    OriginAndExtra::derived(std::iter::empty(), Default::default())
}
impl OriginAndExtra {
    /// The stored edges (harness access to the private `origin()`).
    pub(crate) fn verif_edges(&self) -> QueryEdges<'_> {
        self.origin().edges()
    }
}

//@ob id=K-QREV-1 kind=B bound=sequence-length=1 props=C02,C11 timeout=1200 fn=QueryRevisions::discard_edges_if_never_change
//@ pre: memo revisions with one input edge, any durability, origin derived or derived-untracked, with or without a cycle head, accumulated-inputs flag Empty or Any
//@ post: edges are discarded only if durability == NEVER_CHANGE && origin is fully tracked Derived && no cycle heads && no accumulated inputs; in every other case the edge is still there; extra data (cycle heads) is never lost
#[cfg_attr(kani, kani::proof)]
#[cfg_attr(kani, kani::unwind(5))]
#[cfg_attr(salsa_verif_replay, test)]
fn k_qrev_1_discard_edges_if_never_change() {
    let e = QueryEdge::input(vk::key(1, 3));
    let d = vk::any_durability();
    let untracked: bool = vk::any();
    let has_head: bool = vk::any();
    let acc_any: bool = vk::any();
    let stamp = IterationStamp::initial(0);
    let extra = if has_head { extra_with_head(vk::key(0, 2), stamp) } else { QueryRevisionsExtra(None) };
    let origin = if untracked {
        OriginAndExtra::derived_untracked([e].into_iter(), extra)
    } else {
        OriginAndExtra::derived([e].into_iter(), extra)
    };
    let mut r = revs(d, Revision::start(), !has_head, origin);
    if acc_any {
        r.accumulated_inputs.store(crate::accumulator::accumulated_map::InputAccumulatedValues::Any);
    }
    r.discard_edges_if_never_change();
    let may_discard = d == Durability::NEVER_CHANGE && !untracked && !has_head && !acc_any;
    let mut it = r.origin().edges().iter();
    if may_discard {
        // (the converse is an optimisation: C02 only needs "never discarded otherwise")
        let _ = it.next();
    } else {
        assert!(it.next() == Some(e));
        assert!(it.next().is_none());
    }
    assert!(r.is_derived_untracked() == untracked);
    assert!(r.cycle_heads().is_empty() == !has_head);
    assert!(r.durability == d);
    vcover!();
    std::mem::forget(r);
}

//@ob id=K-QREV-2 kind=C props=C25,C11 fn=QueryRevisionsExtra::new
//@ pre: no accumulated values, no tracked structs; cycle heads empty or one head; iteration stamp default or not; force flag symbolic
//@ post: no extra storage <=> nothing to store && !force; otherwise the stored heads and iteration read back, cycle_converged starts false
#[cfg_attr(kani, kani::proof)]
#[cfg_attr(kani, kani::unwind(5))]
#[cfg_attr(salsa_verif_replay, test)]
fn k_qrev_2_extra_new() {
    let has_head: bool = vk::any();
    let it: u8 = vk::any();
    let stamp = IterationStamp::initial(it);
    let force: bool = vk::any();
    let heads = if has_head { CycleHeads::initial(vk::key(0, 2), stamp) } else { empty_cycle_heads().clone() };
    let x = QueryRevisionsExtra::new(Default::default(), ThinVec::new(), heads, stamp, force);
    assert!(x.0.is_none() == (!force && !has_head && it == 0));
    if let Some(inner) = &x.0 {
        assert!(inner.cycle_heads.is_empty() == !has_head);
        assert!(inner.iteration.load() == stamp);
        assert!(!inner.cycle_converged);
        assert!(inner.tracked_struct_ids.is_empty());
    }
    vcover!();
    std::mem::forget(x);
}

/// Does the top frame of the query stack list `key` as an output edge?
pub(crate) fn top_frame_has_output(l: &ZalsaLocal, key: DatabaseKeyIndex) -> bool {
    // SAFETY: not reentrant
    unsafe {
        l.with_query_stack_unchecked(|stack| {
            stack.last().is_some_and(|q| crate::active_query::verif::has_output(q, key))
        })
    }
}

//@ob id=K-ZL-1 kind=C props=C10,C06 timeout=900 fn=ZalsaLocal::is_tracked_struct_of_active_query,ZalsaLocal::store_tracked_struct_id,ZalsaLocal::push_query
//@ pre: query A is executing and created tracked struct S; A then calls query B (B is on top of the stack); any ids
//@ post: S counts as "created by the current execution" only while A is the innermost executing query: false while B executes (so `specify` from B panics), true for A before the call
#[cfg_attr(kani, kani::proof)]
#[cfg_attr(kani, kani::unwind(5))]
#[cfg_attr(salsa_verif_replay, test)]
fn k_zl_1_ownership_is_checked_against_the_innermost_query() {
    let l = crate::zalsa_local::verif::local_static();
    let a = vk::key(3, 1);
    let b = vk::key(4, 2);
    let s_id = vk::any_id();
    let s = DatabaseKeyIndex::new(IngredientIndex::new(9), s_id);
    let fa = l.push_query(a);
    assert!(!l.is_tracked_struct_of_active_query(s));
    l.store_tracked_struct_id(crate::tracked_struct::verif::identity(9, 77, 0), s_id);
    assert!(l.is_tracked_struct_of_active_query(s));
    let fb = l.push_query(b);
    assert!(!l.is_tracked_struct_of_active_query(s));
    vcover!();
    std::mem::forget(fb);
    std::mem::forget(fa);
    std::mem::forget(l);
}

/// The handle has become the unique writer of `page` for `ingredient` (what `allocate_cold` records).
pub(crate) fn remember_page(l: &mut ZalsaLocal, ingredient: IngredientIndex, page: crate::table::PageIndex) {
    l.most_recent_pages.get_mut().insert(ingredient, page);
}

//@ob id=K-ZL-3 kind=C props=C24 timeout=900 fn=ZalsaLocal::record_unfilled_pages,Table::record_unfilled_page,Table::take_non_full_page
//@ pre: a handle's local state remembers an unfilled page (any page number) for an ingredient and hands its pages over (`record_unfilled_pages`)
//@ post: the pool then hands that page out exactly once to later handles, and never for another ingredient.  (That the hand-over happens once per handle is K-ST-2a/2b; whether the local state still remembers the page afterwards is deliberately not part of this contract - the state is discarded by both callers.)  One remembered page only: with two, CBMC's SAT back end runs out of memory (the pool's keys are then read back from the heap)
#[cfg_attr(kani, kani::proof)]
#[cfg_attr(kani, kani::unwind(5))]
#[cfg_attr(salsa_verif_replay, test)]
fn k_zl_3_unfilled_pages_reach_the_pool_once() {
    use crate::table::verif::{page_index, take_recycled};
    let t = Table::default();
    let mut l = crate::zalsa_local::verif::local_static();
    let (i0, i1) = (IngredientIndex::new(0), IngredientIndex::new(1));
    let n0: usize = vk::any();
    vk::assume(n0 < 64);
    remember_page(&mut l, i0, page_index(n0));
    l.record_unfilled_pages(&t);
    assert!(take_recycled(&t, i1).is_none());
    let a = take_recycled(&t, i0);
    assert!(a.map(|p| p.as_usize()) == Some(n0));
    assert!(take_recycled(&t, i0).is_none());
    vcover!();
    std::mem::forget(t);
    std::mem::forget(l);
}

impl ZalsaLocal {
    /// Stand-in for `active_query_with_cycle_heads` in harnesses whose creator query is **not** inside a
    /// cycle: same key and stamp (from the real query stack), statically empty cycle heads.
    pub(crate) fn verif_active_query_no_cycle(&self) -> Option<(DatabaseKeyIndex, Stamp, CycleHeads)> {
        self.active_query().map(|(k, s)| (k, s, CycleHeads::default()))
    }
}

/// Give the innermost executing query the stamp (durability, changed_at) of "it has read inputs with
/// this minimum durability and this maximum changed_at" without recording edges.
pub(crate) fn set_top_stamp(l: &ZalsaLocal, d: Durability, r: Revision) {
    // SAFETY: not reentrant
    unsafe { l.with_query_stack_unchecked_mut(|stack| crate::active_query::verif::set_stamp(stack.last_mut().unwrap(), d, r)) }
}


impl<'me> ActiveQueryGuard<'me> {
    /// Stand-in for `pop` in the modular harness of `execute` (G-EXEC-1): the frame stays on the stack
    /// (the harness forgets everything), and the completed query reports durability
    /// `function::verif::POP_DURABILITY`, `changed_at` = the current revision (the frame read something
    /// that changed now), fully tracked, no edges, no cycle heads, no stale structs.
    pub(crate) fn verif_pop(self, _iteration: IterationStamp) -> crate::active_query::CompletedQuery {
        // SAFETY: single-threaded harness
        let d = unsafe { crate::function::verif::POP_DURABILITY };
        let cur = crate::function::verif::current_revision_of_world();
        std::mem::forget(self);
        crate::active_query::CompletedQuery {
            revisions: revs(crate::verif_support::durability_of(d), cur, true, empty_derived()),
            stale_tracked_structs: Vec::new(),
        }
    }
}

/// Has the innermost executing query reported an untracked read?
pub(crate) fn top_frame_is_untracked(l: &ZalsaLocal) -> bool {
    // SAFETY: not reentrant
    unsafe { l.with_query_stack_unchecked(|stack| crate::active_query::verif::is_untracked(stack.last().unwrap())) }
}


/// `ZalsaLocal::new()` with the query stack's frames stored in `cell` (see `active_query::verif::StackCell`).
pub(crate) fn local_on(cell: &mut crate::active_query::verif::StackCell) -> ZalsaLocal {
    ZalsaLocal {
        query_stack: RefCell::new(crate::active_query::verif::query_stack_on(cell)),
        most_recent_pages: UnsafeCell::new(FxHashMap::default()),
        cancelled: CancellationToken::default(),
    }
}

/// `ZalsaLocal::new()` for harnesses: under Kani the frames live in a static cell (a typed object for CBMC; one
/// local state per harness - a second call fails the assertion, use `local_on` then); in replay runs, where the
/// harnesses are ordinary parallel `#[test]`s, it is the real constructor.
#[cfg(kani)]
pub(crate) fn local_static() -> ZalsaLocal {
    static mut CELL: crate::active_query::verif::StackCell = [const { std::mem::MaybeUninit::uninit() }; 4];
    static mut USED: bool = false;
    // SAFETY: single-threaded harness; handed out once
    unsafe {
        assert!(!USED, "verif: local_static() called twice in one harness");
        USED = true;
        local_on(&mut *std::ptr::addr_of_mut!(CELL))
    }
}
#[cfg(not(kani))]
pub(crate) fn local_static() -> ZalsaLocal {
    ZalsaLocal::new()
}
