//! Child module of `crate::revision`.
use super::*;
use crate::verif_support::{self as vk, vcover};

//@ob id=K-REV-1 kind=C props=C01,C02,C03 fn=Revision::from,Revision::as_usize,Revision::next,Revision::start,Revision::from_opt
//@ pre: every pair of revisions in 1 ..= usize::MAX - 1
//@ post: as_usize(from(g)) == g; order is the order of the integers; next() is strictly greater by exactly one; start() == 1 is the minimum; from_opt(0) is None
#[cfg_attr(kani, kani::proof)]
#[cfg_attr(salsa_verif_replay, test)]
fn k_rev_1_order() {
    let a: usize = vk::any();
    let b: usize = vk::any();
    vk::assume(a >= 1 && a < usize::MAX && b >= 1 && b < usize::MAX);
    let ra = Revision::from(a);
    let rb = Revision::from(b);
    assert!(ra.as_usize() == a);
    assert!((ra < rb) == (a < b));
    assert!((ra == rb) == (a == b));
    assert!(ra.next().as_usize() == a + 1);
    assert!(ra.next() > ra);
    assert!(Revision::start().as_usize() == 1 && Revision::start() <= ra);
    assert!(Revision::from_opt(0).is_none());
    assert!(Revision::from_opt(a) == Some(ra));
    vcover!();
}

//@ob id=K-REV-2 kind=C props=C01,C07 fn=AtomicRevision::new,AtomicRevision::load,AtomicRevision::store,OptionalAtomicRevision::new,OptionalAtomicRevision::load,OptionalAtomicRevision::swap,OptionalAtomicRevision::compare_exchange
//@ pre: any revisions / optional revisions
//@ post: load(store(r)) == r; Optional: None <-> 0 encoding round-trips; swap returns the previous value; compare_exchange succeeds iff current matches and then installs new
#[cfg_attr(kani, kani::proof)]
#[cfg_attr(salsa_verif_replay, test)]
fn k_rev_2_atomics() {
    let r = vk::any_revision();
    let r2 = vk::any_revision();
    let a = AtomicRevision::new(r);
    assert!(a.load() == r);
    a.store(r2);
    assert!(a.load() == r2);
    assert!(AtomicRevision::start().load() == Revision::start());
    let some1: bool = vk::any();
    let some2: bool = vk::any();
    let o1 = if some1 { Some(r) } else { None };
    let o2 = if some2 { Some(r2) } else { None };
    let o = OptionalAtomicRevision::new(o1);
    assert!(o.load() == o1);
    assert!(o.swap(o2) == o1);
    assert!(o.load() == o2);
    let some3: bool = vk::any();
    let o3 = if some3 { Some(vk::any_revision()) } else { None };
    let res = o.compare_exchange(o3, o1);
    if o3 == o2 {
        assert!(res == Ok(o2));
        assert!(o.load() == o1);
    } else {
        assert!(res == Err(o2));
        assert!(o.load() == o2);
    }
    vcover!();
}
