//! Child module of `crate::tracked_struct`: identity maps, the update/delete/lock protocol of the
//! generic tracked-struct ingredient instantiated with a two-field configuration
//! (`fields = (identity: u32, tracked: u32)`; `update_fields` has the shape `setup_tracked_struct!` expands to).
use super::*;
use crate::verif_support::{self as vk, vcover};

pub(crate) struct KT;
#[derive(Copy, Clone)]
pub(crate) struct KTStruct(Id);
impl FromId for KTStruct {
    fn from_id(id: Id) -> Self {
        KTStruct(id)
    }
}
impl AsId for KTStruct {
    fn as_id(&self) -> Id {
        self.0
    }
}
// SAFETY: fields have no lifetime
unsafe impl Configuration for KT {
    const LOCATION: crate::ingredient::Location = crate::ingredient::Location { file: "", line: 0 };
    const DEBUG_NAME: &'static str = "KT";
    const TRACKED_FIELD_NAMES: &'static [&'static str] = &["t"];
    const TRACKED_FIELD_INDICES: &'static [usize] = &[0];
    const PERSIST: bool = false;
    type Fields<'db> = (u32, u32);
    type Revisions = [AtomicRevision; 1];
    type Struct<'db> = KTStruct;
    fn untracked_fields(fields: &Self::Fields<'_>) -> impl Hash {
        (&fields.0,)
    }
    fn new_revisions(current_revision: Revision) -> Self::Revisions {
        std::array::from_fn(|_| AtomicRevision::new(current_revision))
    }
    fn update_fields<'db>(current_revision: Revision, revisions: &Self::Revisions, old_fields: &mut Self::Fields<'db>, new_fields: Self::Fields<'db>) -> bool {
        if update_field(&mut old_fields.1, new_fields.1, |a, b| a == b) {
            revisions[0].store(current_revision);
        }
        update_field(&mut old_fields.0, new_fields.0, |a, b| a == b) | false
    }
    fn serialize<S>(_: &Self::Fields<'_>, _: S) -> Result<S::Ok, S::Error>
    where
        S: plumbing::serde::Serializer,
    {
        unimplemented!()
    }
    fn deserialize<'de, D>(_: D) -> Result<Self::Fields<'static>, D::Error>
    where
        D: plumbing::serde::Deserializer<'de>,
    {
        unimplemented!()
    }
}

/// Allocate one tracked struct value (fields (1, 2)) on a real page.
pub(crate) fn alloc_struct(z: &Zalsa, ing: &IngredientImpl<KT>, updated_at: Option<Revision>, d: Durability, field_rev: Revision) -> Id {
    let types = ing.memo_table_types.clone();
    let page = z.table().push_page::<Value<KT>>(ing.ingredient_index, types.clone());
    // SAFETY: unique writer
    let (id, _) = unsafe {
        z.table().page::<Value<KT>>(page).allocate(page, |_| Value::<KT> {
            updated_at: OptionalAtomicRevision::new(updated_at),
            durability: d,
            revisions: [AtomicRevision::new(field_rev)],
            fields: (1, 2),
            // SAFETY: same memo table types as the ingredient
            memos: unsafe { MemoTable::new(&types) },
        })
    }
    .ok()
    .unwrap();
    id
}
fn value_of<'a>(z: &'a Zalsa, id: Id) -> &'a Value<KT> {
    // SAFETY: allocated above, single threaded
    unsafe { &*IngredientImpl::<KT>::data_raw(z.table(), id) }
}

//@ob id=K-TS-1 kind=C props=C01,C03 fn=update_field
//@ pre: any old value, any new value (u32), equality = `==`
//@ post: returns changed <=> old != new; the stored value is the new one in either case (equal values are interchangeable)
#[cfg_attr(kani, kani::proof)]
#[cfg_attr(salsa_verif_replay, test)]
fn k_ts_1_update_field() {
    let old: u32 = vk::any();
    let new: u32 = vk::any();
    let mut slot = old;
    let changed = update_field(&mut slot, new, |a, b| a == b);
    assert!(changed == (old != new));
    assert!(slot == new);
    vcover!();
}

//@ob id=K-TS-2 kind=C props=C07,C01 fn=acquire_read_lock
//@ pre: a slot last updated at any revision; any current revision
//@ post: afterwards the slot is stamped with the current revision (read-locked for this revision)
#[cfg_attr(kani, kani::proof)]
#[cfg_attr(kani, kani::unwind(2))]
#[cfg_attr(salsa_verif_replay, test)]
fn k_ts_2_read_lock() {
    let cur = vk::any_revision();
    let old = vk::any_revision();
    let u = OptionalAtomicRevision::new(Some(old));
    acquire_read_lock(&u, cur);
    assert!(u.load() == Some(cur));
    vcover!();
}

//@ob id=K-TS-2p kind=C props=C07 fn=acquire_read_lock flags=should_panic
//@ pre: a write-locked (deleted / being updated) slot
//@ post: reading its fields panics ("write lock taken") instead of handing out the old data
//@ panic: write lock taken
#[cfg_attr(kani, kani::proof)]
#[cfg_attr(kani, kani::unwind(2))]
#[cfg_attr(kani, kani::should_panic)]
#[cfg_attr(salsa_verif_replay, test)]
#[cfg_attr(salsa_verif_replay, should_panic(expected = "write lock taken"))]
fn k_ts_2p_read_of_write_locked_panics() {
    let u = OptionalAtomicRevision::new(None);
    acquire_read_lock(&u, vk::any_revision());
}

//@ob id=K-TS-3 kind=B bound=one-hashbrown-insert props=C06 timeout=900 fn=DisambiguatorMap::disambiguate
//@ pre: an empty disambiguator map (start of an execution); any identity hash
//@ post: the first struct with that identity in an execution gets disambiguator 0 (same as in every other execution => same identity)
#[cfg_attr(kani, kani::proof)]
#[cfg_attr(kani, kani::unwind(6))]
#[cfg_attr(salsa_verif_replay, test)]
fn k_ts_3_first_disambiguator() {
    let mut d = DisambiguatorMap::default();
    let h = IdentityHash { ingredient_index: IngredientIndex::new(0), hash: 7 };
    let a = d.disambiguate(h);
    assert!(a == Disambiguator(0));
    assert!(!d.is_empty());
    vcover!();
    std::mem::forget(d);
}

//@off(cbmc-does-not-finish) id=K-TS-4 kind=B bound=one-entry props=C06 timeout=1200 fn=IdentityMap::seed,IdentityMap::reuse,IdentityMap::is_active,IdentityMap::drain
//@ pre: an identity map seeded with one (identity, id) from the previous execution; the new execution either re-creates that identity or not (symbolic)
//@ post: reuse returns exactly the seeded id; drain classifies the entry as active iff it was re-created, else stale; nothing is lost or invented
#[cfg_attr(kani, kani::proof)]
#[cfg_attr(kani, kani::unwind(6))]
#[cfg_attr(salsa_verif_replay, test)]
fn k_ts_4_identity_map_one_entry() {
    let mut m = IdentityMap::default();
    let ident = Identity { ingredient_index: IngredientIndex::new(0), hash: 7, disambiguator: Disambiguator(0) };
    let id = vk::key(0, 3).key_index();
    m.seed(&[(ident, id)]);
    let recreated: bool = vk::any();
    if recreated {
        assert!(m.reuse(&ident) == Some(id));
    }
    let (active, stale) = m.drain();
    if recreated {
        assert!(active.len() == 1 && stale.is_empty() && active[0] == (ident, id));
    } else {
        assert!(stale.len() == 1 && active.is_empty() && stale[0] == (ident, id));
    }
    vcover!();
    std::mem::forget(m);
    std::mem::forget(active);
    std::mem::forget(stale);
}

//@ob id=K-TS-5 kind=C props=C01,C03,C06,C07 timeout=1200 fn=IngredientImpl::update,Configuration::update_fields,Id::next_generation
//@ pre: bare Zalsa in revision 3; a slot with fields (1,2), any durability d0, any generation g0, last updated in revision 2 or already in revision 3 (symbolic); re-created with deps stamp (any durability d1, changed_at c in 1..=3) and fields whose identity / tracked parts are each symbolically changed or not
//@ post: already validated this revision => same id, nothing touched. generation == MAX => refuses (Err). Otherwise: same slot index; generation bumped by one <=> an identity field changed, else SAME id; fields installed; durability := d1; the tracked field's revision := c <=> its value changed OR the creator became less durable, else untouched; slot stamped with the current revision (lock released)
#[cfg_attr(kani, kani::proof)]
#[cfg_attr(kani, kani::unwind(4))]
#[cfg_attr(salsa_verif_replay, test)]
fn k_ts_5_update() {
    let mut z = crate::zalsa::verif::bare_zalsa();
    z.runtime_mut().new_revision(); // R2
    z.runtime_mut().new_revision(); // R3 = current
    let cur = z.current_revision();
    let ing = IngredientImpl::<KT>::new(IngredientIndex::new(0));
    let d0 = vk::any_durability();
    let locked: bool = vk::any();
    let g0: u32 = vk::any();
    let upd = if locked { cur } else { Revision::from(2) };
    let id0 = alloc_struct(&z, &ing, Some(upd), d0, Revision::start());
    let id = id0.with_generation(g0);
    let d1 = vk::any_durability();
    let c: usize = vk::any();
    vk::assume(c >= 1 && c <= 3);
    let deps = Stamp { durability: d1, changed_at: Revision::from(c) };
    let ident_changed: bool = vk::any();
    let tracked_changed: bool = vk::any();
    let new_fields = (if ident_changed { 7 } else { 1 }, if tracked_changed { 9 } else { 2 });
    // SAFETY: slot initialised above
    let r = unsafe { ing.update(&z, id, &deps, new_fields) };
    let v = value_of(&z, id);
    if locked {
        assert!(r == Ok(id));
        assert!(v.fields == (1, 2) && v.durability == d0);
        assert!(v.revisions[0].load() == Revision::start());
    } else if g0 == u32::MAX {
        assert!(r.is_err());
    } else {
        let nid = r.ok().unwrap();
        assert!(nid.index() == id.index());
        assert!(nid.generation() == if ident_changed { g0 + 1 } else { g0 });
        assert!((nid == id) == !ident_changed);
        assert!(v.fields == new_fields);
        assert!(v.durability == d1);
        assert!(v.updated_at.load() == Some(cur));
        let fr = v.revisions[0].load();
        if tracked_changed || d1 < d0 {
            assert!(fr == Revision::from(c));
        } else {
            assert!(fr == Revision::start());
        }
    }
    vcover!();
    std::mem::forget(z);
    std::mem::forget(ing);
}

//@ob id=K-TS-6 kind=C props=C06,C07 timeout=600 fn=IngredientImpl::delete_entity,IngredientImpl::clear_memos,IngredientImpl::remove_stale_output
//@ pre: bare Zalsa in revision 3; a slot last updated in revision 1 or 2 (no memos attached)
//@ post: the slot is write-locked (updated_at == None => not enumerated, reads panic) and its id is queued for reuse exactly once
#[cfg_attr(kani, kani::proof)]
#[cfg_attr(kani, kani::unwind(4))]
#[cfg_attr(salsa_verif_replay, test)]
fn k_ts_6_delete_entity() {
    let mut z = crate::zalsa::verif::bare_zalsa();
    z.runtime_mut().new_revision();
    z.runtime_mut().new_revision();
    let ing = IngredientImpl::<KT>::new(IngredientIndex::new(0));
    let upd = if vk::any() { Revision::from(2) } else { Revision::start() };
    let id = alloc_struct(&z, &ing, Some(upd), Durability::LOW, Revision::start());
    Ingredient::remove_stale_output(&ing, &z, vk::key(5, 5), id);
    let v = value_of(&z, id);
    assert!(v.updated_at.load().is_none());
    assert!(ing.free_list.pop() == Some(id));
    assert!(ing.free_list.pop().is_none());
    vcover!();
    std::mem::forget(z);
    std::mem::forget(ing);
}

//@ob id=K-TS-6p kind=C props=C07 timeout=600 fn=IngredientImpl::delete_entity flags=should_panic
//@ pre: a slot that was read (or validated) in the current revision
//@ post: deleting it panics ("cannot delete read-locked id") - storage that may be referenced in this revision is never recycled
//@ panic: cannot delete read-locked id
#[cfg_attr(kani, kani::proof)]
#[cfg_attr(kani, kani::unwind(4))]
#[cfg_attr(kani, kani::should_panic)]
#[cfg_attr(salsa_verif_replay, test)]
#[cfg_attr(salsa_verif_replay, should_panic(expected = "cannot delete read-locked id"))]
fn k_ts_6p_delete_read_locked_panics() {
    let mut z = crate::zalsa::verif::bare_zalsa();
    z.runtime_mut().new_revision();
    let cur = z.current_revision();
    let ing = IngredientImpl::<KT>::new(IngredientIndex::new(0));
    let id = alloc_struct(&z, &ing, Some(cur), Durability::LOW, Revision::start());
    ing.delete_entity(&z, id);
    std::mem::forget(z);
    std::mem::forget(ing);
}

//@ob id=K-TS-8 kind=C props=C07,C06 timeout=1200 fn=IngredientImpl::allocate
//@ pre: bare Zalsa in revision 3; one deleted slot (write-locked) of any generation g < u32::MAX on the free list; a new struct is allocated with any deps stamp
//@ post: the freed slot is reused with generation g+1 (so the new id differs from every id the slot had before); it holds the new fields, the creator's durability, field revision = deps.changed_at, and is stamped with the current revision; the free list is empty afterwards
#[cfg_attr(kani, kani::proof)]
#[cfg_attr(kani, kani::unwind(4))]
#[cfg_attr(salsa_verif_replay, test)]
fn k_ts_8_allocate_from_free_list() {
    let mut z = crate::zalsa::verif::bare_zalsa();
    z.runtime_mut().new_revision();
    z.runtime_mut().new_revision();
    let cur = z.current_revision();
    let local = crate::zalsa_local::verif::local_static();
    let ing = IngredientImpl::<KT>::new(IngredientIndex::new(0));
    let id0 = alloc_struct(&z, &ing, None, Durability::LOW, Revision::start());
    let g: u32 = vk::any();
    vk::assume(g < u32::MAX);
    ing.free_list.push(id0.with_generation(g));
    let d1 = vk::any_durability();
    let c: usize = vk::any();
    vk::assume(c >= 1 && c <= 3);
    let deps = Stamp { durability: d1, changed_at: Revision::from(c) };
    let f: (u32, u32) = (vk::any(), vk::any());
    let nid = ing.allocate(&z, &local, &deps, f);
    assert!(nid.index() == id0.index());
    assert!(nid.generation() == g + 1);
    assert!(nid != id0.with_generation(g));
    let v = value_of(&z, nid);
    assert!(v.fields == f && v.durability == d1);
    assert!(v.revisions[0].load() == Revision::from(c));
    assert!(v.updated_at.load() == Some(cur));
    assert!(ing.free_list.pop().is_none());
    vcover!();
    std::mem::forget(z);
    std::mem::forget(ing);
    std::mem::forget(local);
}

impl IngredientImpl<KT> {
    pub(crate) fn verif_new(index: IngredientIndex) -> Self {
        Self::new(index)
    }
}

/// An `Identity` with the given parts.
pub(crate) fn identity(ing: u32, hash: u64, disambiguator: u32) -> Identity {
    Identity { ingredient_index: IngredientIndex::new(ing), hash, disambiguator: Disambiguator(disambiguator) }
}

impl IdentityMap {
    pub(crate) fn verif_is_empty(&self) -> bool {
        self.table.is_empty()
    }
}
impl DisambiguatorMap {
    pub(crate) fn verif_is_empty(&self) -> bool {
        self.map.is_empty()
    }
}

//@ob id=K-TS-9 kind=C props=C01,C06,C07 timeout=900 fn=IngredientImpl::tracked_field,IngredientImpl::lock_fields,ZalsaLocal::report_tracked_read_simple
//@ pre: a tracked struct created or validated in the current revision (read lock already at the current revision, or taken now), with any durability and any revision of its tracked field; an executing query reads the tracked field
//@ post: the stored fields come back; the reading query's stamp becomes exactly (the struct's durability, the **field's** revision) - i.e. min / max with the fresh frame's (NEVER_CHANGE, R1); the slot is read-locked in the current revision afterwards
#[cfg_attr(kani, kani::proof)]
#[cfg_attr(kani, kani::unwind(6))]
#[cfg_attr(salsa_verif_replay, test)]
fn k_ts_9_tracked_field_read_reports_field_stamp() {
    let mut z = crate::zalsa::verif::bare_zalsa();
    z.runtime_mut().new_revision();
    let cur = z.current_revision();
    let local = crate::zalsa_local::verif::local_static();
    let ing = IngredientImpl::<KT>::verif_new(IngredientIndex::new(0));
    let d = vk::any_durability();
    let fr = vk::any_revision();
    vk::assume(fr <= cur);
    let locked_now: bool = vk::any();
    let id = alloc_struct(&z, &ing, Some(if locked_now { cur } else { Revision::start() }), d, fr);
    let g = local.push_query(vk::key(7, 1));
    let f = ing.tracked_field(&z, &local, KTStruct(id), 0);
    assert!(*f == (1, 2));
    let (_, stamp) = local.active_query().unwrap();
    assert!(stamp.durability == d);
    assert!(stamp.changed_at == fr);
    assert!(value_of(&z, id).updated_at.load() == Some(cur));
    vcover!();
    std::mem::forget(g);
    std::mem::forget(local);
    std::mem::forget(z);
    std::mem::forget(ing);
}

// ---------------------------------------------------------------------------------------------
// `new_struct` against the contracts of `update` (K-TS-5) and `allocate` (K-TS-8): both are stubbed
// ---------------------------------------------------------------------------------------------
/// 0: `update` returns `Ok(same id)`; 1: `Ok(next generation of the slot)` (identity fields changed, slot
/// reused for the new value); 2: `Err(fields)` (value already updated in this revision: caller must allocate)
pub(crate) static mut UPDATE_MODE: u8 = 0;
pub(crate) static mut UPDATE_CALLS: u32 = 0;
pub(crate) static mut ALLOC_CALLS: u32 = 0;
pub(crate) const FRESH_SLOT: u32 = 40;
pub(crate) fn stub_update<'db, C: Configuration>(_this: &'db IngredientImpl<C>, _zalsa: &'db Zalsa, id: Id, _deps: &Stamp, fields: C::Fields<'db>) -> Result<Id, C::Fields<'db>> {
    // SAFETY: single-threaded harness
    unsafe {
        UPDATE_CALLS += 1;
        match UPDATE_MODE {
            0 => Ok(id),
            1 => Ok(id.next_generation().unwrap()),
            _ => Err(fields),
        }
    }
}
pub(crate) fn stub_allocate<'db, C: Configuration>(_this: &'db IngredientImpl<C>, _zalsa: &'db Zalsa, _zalsa_local: &'db ZalsaLocal, _deps: &Stamp, fields: C::Fields<'db>) -> Id {
    std::mem::forget(fields);
    // SAFETY: single-threaded harness; small index
    unsafe {
        ALLOC_CALLS += 1;
        Id::from_index(FRESH_SLOT)
    }
}

fn new_struct_case(seeded: bool, mode: u8) {
    let z = crate::zalsa::verif::bare_zalsa();
    let mut cell = crate::active_query::verif::stack_cell();
    let l = crate::zalsa_local::verif::local_on(&mut cell);
    let ing = IngredientImpl::<KT>::verif_new(IngredientIndex::new(4));
    let creator = vk::key(5, 3);
    let frame = l.push_query(creator);
    let fields: (u32, u32) = (7, vk::any());
    // the identity `new_struct` will compute for the first struct with these identity fields
    let ident = identity(4, crate::hash::hash(&KT::untracked_fields(&fields)), 0);
    let g: u32 = vk::any();
    vk::assume(g < u32::MAX);
    // SAFETY: small index
    let old_id = unsafe { Id::from_index(3) }.with_generation(g);
    if seeded {
        // what `execute` does before running the user function (ids of the previous execution)
        frame.seed_tracked_struct_ids(&[(ident, old_id)]);
    }
    // SAFETY: single-threaded harness
    unsafe { UPDATE_MODE = mode };
    let s = ing.new_struct(&z, &l, fields);
    // SAFETY: single-threaded harness
    let (uc, ac) = unsafe { (UPDATE_CALLS, ALLOC_CALLS) };
    let expected = if !seeded || mode == 2 {
        // SAFETY: small index
        unsafe { Id::from_index(FRESH_SLOT) }
    } else if mode == 1 {
        old_id.next_generation().unwrap()
    } else {
        old_id
    };
    assert!(s.0 == expected);
    assert!(uc == if seeded { 1 } else { 0 });
    assert!(ac == if !seeded || mode == 2 { 1 } else { 0 });
    // what the executing query now records for that identity
    assert!(l.tracked_struct_id(&ident) == Some(expected));
    vcover!();
    std::mem::forget(frame);
    std::mem::forget(ing);
    std::mem::forget(l);
    std::mem::forget(z);
}

//@ob id=G-NEW-1a kind=C props=C06,C07,C01 timeout=1800 fn=IngredientImpl::new_struct,ZalsaLocal::disambiguate,ZalsaLocal::tracked_struct_id,ZalsaLocal::store_tracked_struct_id,IdentityMap::reuse,IdentityMap::insert,DisambiguatorMap::disambiguate flags=stubs,noreplay
//@ pre: a query is executing (real query stack); its identity map was seeded from the previous execution with the identity of the struct it is about to create mapped to a slot of any generation; `update` (stub = its contract, K-TS-5) keeps the id (the three outcomes are three harnesses: a symbolic outcome exhausts CBMC's memory); `allocate` (stub) hands out a fresh slot
//@ post: the struct returned is the one `update`/`allocate` produced, and **the executing query's identity map maps the identity to exactly the returned id** (what gets stored in the memo and seeds the next execution): same id when unchanged, the bumped generation when the slot was reused for changed identity fields, the fresh id otherwise
//@ post: `update` is consulted only for a seeded identity, `allocate` only when there was none or `update` refused
#[cfg(kani)]
#[kani::proof]
#[kani::unwind(5)]
#[kani::stub(crate::tracked_struct::IngredientImpl::update, stub_update)]
#[kani::stub(crate::tracked_struct::IngredientImpl::allocate, stub_allocate)]
fn g_new_1a_seeded_identity_kept() {
    new_struct_case(true, 0)
}

//@ob id=G-NEW-1c kind=C props=C06,C07,C01 timeout=1800 fn=IngredientImpl::new_struct,ZalsaLocal::disambiguate,ZalsaLocal::tracked_struct_id,ZalsaLocal::store_tracked_struct_id,IdentityMap::reuse,IdentityMap::insert,DisambiguatorMap::disambiguate flags=stubs,noreplay
//@ pre: a query is executing (real query stack); its identity map was seeded from the previous execution with the identity of the struct it is about to create mapped to a slot of any generation; `update` (stub = its contract, K-TS-5) moves to the next generation of the slot (the three outcomes are three harnesses: a symbolic outcome exhausts CBMC's memory); `allocate` (stub) hands out a fresh slot
//@ post: the struct returned is the one `update`/`allocate` produced, and **the executing query's identity map maps the identity to exactly the returned id** (what gets stored in the memo and seeds the next execution): same id when unchanged, the bumped generation when the slot was reused for changed identity fields, the fresh id otherwise
//@ post: `update` is consulted only for a seeded identity, `allocate` only when there was none or `update` refused
#[cfg(kani)]
#[kani::proof]
#[kani::unwind(5)]
#[kani::stub(crate::tracked_struct::IngredientImpl::update, stub_update)]
#[kani::stub(crate::tracked_struct::IngredientImpl::allocate, stub_allocate)]
fn g_new_1c_seeded_identity_slot_reused() {
    new_struct_case(true, 1)
}

//@ob id=G-NEW-1d kind=C props=C06,C07,C01 timeout=1800 fn=IngredientImpl::new_struct,ZalsaLocal::disambiguate,ZalsaLocal::tracked_struct_id,ZalsaLocal::store_tracked_struct_id,IdentityMap::reuse,IdentityMap::insert,DisambiguatorMap::disambiguate flags=stubs,noreplay
//@ pre: a query is executing (real query stack); its identity map was seeded from the previous execution with the identity of the struct it is about to create mapped to a slot of any generation; `update` (stub = its contract, K-TS-5) refuses (the three outcomes are three harnesses: a symbolic outcome exhausts CBMC's memory); `allocate` (stub) hands out a fresh slot
//@ post: the struct returned is the one `update`/`allocate` produced, and **the executing query's identity map maps the identity to exactly the returned id** (what gets stored in the memo and seeds the next execution): same id when unchanged, the bumped generation when the slot was reused for changed identity fields, the fresh id otherwise
//@ post: `update` is consulted only for a seeded identity, `allocate` only when there was none or `update` refused
#[cfg(kani)]
#[kani::proof]
#[kani::unwind(5)]
#[kani::stub(crate::tracked_struct::IngredientImpl::update, stub_update)]
#[kani::stub(crate::tracked_struct::IngredientImpl::allocate, stub_allocate)]
fn g_new_1d_seeded_identity_refused() {
    new_struct_case(true, 2)
}

//@ob id=G-NEW-1b kind=C props=C06 timeout=1800 fn=IngredientImpl::new_struct,ZalsaLocal::disambiguate,ZalsaLocal::tracked_struct_id,ZalsaLocal::store_tracked_struct_id flags=stubs,noreplay
//@ pre: as G-NEW-1a, but the identity was not created by the previous execution (first execution, or a newly created struct)
//@ post: a fresh slot is allocated (`update` is not consulted) and the executing query records the identity with exactly that id
#[cfg(kani)]
#[kani::proof]
#[kani::unwind(5)]
#[kani::stub(crate::tracked_struct::IngredientImpl::update, stub_update)]
#[kani::stub(crate::tracked_struct::IngredientImpl::allocate, stub_allocate)]
fn g_new_1b_fresh_identity() {
    new_struct_case(false, 0)
}
