//! Child module of `crate::id`.
use super::*;
use crate::verif_support::{self as vk, vcover};

#[cfg(kani)]
impl kani::Arbitrary for Id {
    fn any() -> Self {
        vk::any_id()
    }
}

//@ob id=K-ID-1 kind=C props=C24,C25,C07 fn=Id::from_index,Id::index,Id::with_generation,Id::generation,Id::as_bits,Id::from_bits,Id::from_bits_unchecked
//@ pre: every index < Id::MAX_U32, every generation
//@ post: index/generation read back; with_generation keeps the index; from_bits(as_bits(id)) == id; ids are equal iff index and generation are equal
#[cfg_attr(kani, kani::proof)]
#[cfg_attr(salsa_verif_replay, test)]
fn k_id_1_roundtrip() {
    let idx: u32 = vk::any();
    vk::assume(idx < Id::MAX_U32);
    let g: u32 = vk::any();
    // SAFETY: idx < MAX_U32
    let base = unsafe { Id::from_index(idx) };
    assert!(base.index() == idx && base.generation() == 0);
    let id = base.with_generation(g);
    assert!(id.index() == idx && id.generation() == g);
    assert!(Id::from_bits(id.as_bits()) == id);
    // SAFETY: bits come from as_bits
    assert!(unsafe { Id::from_bits_unchecked(id.as_bits()) } == id);
    let idx2: u32 = vk::any();
    vk::assume(idx2 < Id::MAX_U32);
    let g2: u32 = vk::any();
    // SAFETY: idx2 < MAX_U32
    let id2 = unsafe { Id::from_index(idx2) }.with_generation(g2);
    assert!((id == id2) == (idx == idx2 && g == g2));
    assert!((id.as_bits() == id2.as_bits()) == (id == id2));
    vcover!();
}

//@ob id=K-ID-2 kind=C props=C07,C01 fn=Id::next_generation
//@ pre: (contract on the real fn) any valid Id
//@ post: Some(n) <=> generation < u32::MAX, then n.index == index && n.generation == generation + 1; None <=> generation == u32::MAX
#[cfg(kani)]
#[kani::proof_for_contract(Id::next_generation)]
fn k_id_2_next_generation_contract() {
    let id: Id = kani::any();
    let _ = id.next_generation();
}

//@ob id=K-ID-2r kind=C props=C07,C01 fn=Id::next_generation
//@ pre: any valid Id
//@ post: a reused slot's id has the same index and a strictly larger generation, hence differs from the old id; overflow is refused (None) instead of wrapping
#[cfg_attr(kani, kani::proof)]
#[cfg_attr(salsa_verif_replay, test)]
fn k_id_2r_next_generation() {
    let id = vk::any_id();
    match id.next_generation() {
        Some(n) => {
            assert!(id.generation() < u32::MAX);
            assert!(n.index() == id.index());
            assert!(n.generation() == id.generation() + 1);
            assert!(n != id);
        }
        None => assert!(id.generation() == u32::MAX),
    }
    vcover!();
}
