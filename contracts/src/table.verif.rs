//! Child module of `crate::table`: id <-> (page, slot) and one allocation step.
use super::*;
use crate::verif_support::{self as vk, vcover};

pub(crate) struct S {
    v: u32,
    memos: MemoTable,
}
// SAFETY: harness-private slot type
unsafe impl Slot for S {
    unsafe fn memos(this: *const Self, _: Revision) -> *const MemoTable {
        // SAFETY: caller passes a valid pointer
        unsafe { &raw const (*this).memos }
    }
    fn memos_mut(&mut self) -> &mut MemoTable {
        &mut self.memos
    }
}

//@ob id=K-TBL-1 kind=C props=C24,C07 fn=make_id,split_id
//@ pre: every page < MAX_PAGES, every slot < PAGE_LEN (two such pairs)
//@ post: split_id(make_id(p, s)) == (p, s); generation 0; index < Id::MAX_U32; make_id is injective
#[cfg_attr(kani, kani::proof)]
#[cfg_attr(salsa_verif_replay, test)]
fn k_tbl_1_make_split() {
    let p: usize = vk::any();
    let s: usize = vk::any();
    vk::assume(p < MAX_PAGES && s < PAGE_LEN);
    let id = make_id(PageIndex(p), SlotIndex(s));
    assert!(id.index() < Id::MAX_U32);
    let (p2, s2) = split_id(id);
    assert!(p2.0 == p && s2.0 == s && id.generation() == 0);
    let q: usize = vk::any();
    let t: usize = vk::any();
    vk::assume(q < MAX_PAGES && t < PAGE_LEN);
    let id2 = make_id(PageIndex(q), SlotIndex(t));
    assert!((id == id2) == (p == q && s == t));
    vcover!();
}

//@ob id=K-TBL-2 kind=C props=C24,C23 timeout=600 fn=PageView::allocate,Table::push_page,Table::get,Table::page,PageView::data,Page::new
//@ pre: a real Table page whose `allocated` counter is any i in 0..=128 (PAGE_LEN); any stored value
//@ post: Err and counter unchanged <=> i == 128; else Ok(make_id(page, i)), counter == i+1, Table::get(id) is the stored value at the same address; all pointer/bounds checks pass
#[cfg_attr(kani, kani::proof)]
#[cfg_attr(kani, kani::unwind(3))]
#[cfg_attr(salsa_verif_replay, test)]
fn k_tbl_2_allocate_step() {
    let table = Table::default();
    let ing = IngredientIndex::new(0);
    let types = Arc::new(MemoTableTypes::default());
    let page = table.push_page::<S>(ing, types.clone());
    let i: usize = vk::any();
    vk::assume(i <= PAGE_LEN);
    // put the page into the state "i slots allocated" (slots < i are not read below)
    table.pages[page.0].allocated.store(i, Ordering::Release);
    let view = table.page::<S>(page);
    let x: u32 = vk::any();
    // SAFETY: unique writer
    let r = unsafe { view.allocate(page, |id| S { v: x ^ id.index(), memos: unsafe { MemoTable::new(&types) } }) };
    match r {
        Err(_) => {
            assert!(i == PAGE_LEN);
            assert!(table.pages[page.0].allocated.load(Ordering::Acquire) == i);
        }
        Ok((id, val)) => {
            assert!(i < PAGE_LEN);
            assert!(id == make_id(page, SlotIndex(i)));
            assert!(table.pages[page.0].allocated.load(Ordering::Acquire) == i + 1);
            assert!(val.v == x ^ id.index());
            assert!(table.get::<S>(id).v == val.v);
            assert!(std::ptr::eq(table.get::<S>(id), val));
            assert!(table.ingredient_index(id) == ing);
        }
    }
    vcover!();
    std::mem::forget(table);
}

//@ob id=K-TBL-3 kind=C props=C24 timeout=900 fn=Table::record_unfilled_page,Table::take_non_full_page
//@ pre: a table with two real pages of one ingredient (3 and PAGE_LEN-1 slots used); a dropped handle recycles one or both; later handles ask for a non-full page of that ingredient (and of another one)
//@ post: every recycled page is handed out **at most once** (a page given to one handle is gone from the pool, so two live handles never both believe they are its unique writer); pages of one ingredient are never handed to another; an empty pool yields none
#[cfg_attr(kani, kani::proof)]
#[cfg_attr(kani, kani::unwind(5))]
#[cfg_attr(salsa_verif_replay, test)]
fn k_tbl_3_recycled_page_is_handed_out_once() {
    let t = Table::default();
    let ing = IngredientIndex::new(0);
    let other = IngredientIndex::new(1);
    let types = Arc::new(MemoTableTypes::default());
    // two real, partially filled pages of `ing` (fill level symbolic, below capacity)
    let p1 = t.push_page::<S>(ing, types.clone());
    let p2 = t.push_page::<S>(ing, types.clone());
    // concrete fill levels: a symbolic level makes an implementation that inspects the pages exhaust CBMC's memory
    let (f1, f2): (usize, usize) = (3, PAGE_LEN - 1);
    t.pages[p1.0].allocated.store(f1, Ordering::Release);
    t.pages[p2.0].allocated.store(f2, Ordering::Release);
    let two: bool = vk::any();
    assert!(t.take_non_full_page(ing).is_none());
    t.record_unfilled_page(ing, p1);
    if two {
        t.record_unfilled_page(ing, p2);
    }
    assert!(t.take_non_full_page(other).is_none());
    let a = t.take_non_full_page(ing);
    let b = t.take_non_full_page(ing);
    let c = t.take_non_full_page(ing);
    assert!(a.is_some());
    assert!(b.is_some() == two);
    assert!(c.is_none());
    if let (Some(a), Some(b)) = (a, b) {
        assert!(a.0 != b.0);
        assert!((a.0 == p1.0 && b.0 == p2.0) || (a.0 == p2.0 && b.0 == p1.0));
    } else {
        assert!(a.unwrap().0 == p1.0);
    }
    vcover!(two, "two pages recycled");
    vcover!();
    std::mem::forget(t);
}

/// Helpers for harnesses outside this module (the pool's functions and `PageIndex::new` are private to `table`).
pub(crate) fn page_index(n: usize) -> PageIndex {
    PageIndex::new(n)
}
pub(crate) fn take_recycled(t: &Table, ing: IngredientIndex) -> Option<PageIndex> {
    t.take_non_full_page(ing)
}
