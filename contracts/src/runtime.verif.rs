//! Child module of `crate::runtime`: obligations on the revision vector (durability levels) and
//! the cancellation epoch counter.
use super::*;
use crate::verif_support::refs;
use crate::verif_support::{self as vk, vcover};

/// A real `Runtime` whose revision vector is an arbitrary *monotone* vector
/// (`revisions[0] >= revisions[1] >= revisions[2] >= 1`, the type invariant established by
/// `Runtime::default` and preserved by K-RT-1/K-RT-2).
pub(crate) fn any_runtime() -> (Runtime, [Revision; 3]) {
    let mut rt = Runtime::default();
    let (r0, r1, r2) = (vk::any_revision(), vk::any_revision(), vk::any_revision());
    vk::assume(r0 >= r1 && r1 >= r2);
    rt.revisions = [r0, r1, r2];
    (rt, [r0, r1, r2])
}
pub(crate) fn revs_of(rt: &Runtime) -> [Revision; 3] {
    rt.revisions
}
pub(crate) fn set_revs(rt: &mut Runtime, r: [Revision; 3]) {
    rt.revisions = r;
}
fn as_ref_revs(r: [Revision; 3]) -> refs::Revs {
    refs::Revs { r0: r[0].as_usize(), r1: r[1].as_usize(), r2: r[2].as_usize() }
}

//@ob id=K-RT-1 kind=C props=C01,C02,C03,C04,C20 fn=Runtime::new_revision,Runtime::current_revision
//@ pre: any monotone revision vector with revisions[0] < usize::MAX - 1, any cancellation count
//@ post: returns current+1 and installs it as level 0; levels 1,2 unchanged; cancellation count reset to 0; monotone invariant preserved; result == refs::ref_new_revision
#[cfg_attr(kani, kani::proof)]
#[cfg_attr(kani, kani::unwind(5))]
#[cfg_attr(salsa_verif_replay, test)]
fn k_rt_1_new_revision() {
    let (mut rt, r) = any_runtime();
    let cc: u8 = vk::any();
    *rt.cancellation_count.get_mut() = cc;
    let rn = rt.new_revision();
    assert!(rn.as_usize() == r[0].as_usize() + 1);
    assert!(rt.current_revision() == rn);
    assert!(rt.revisions[0] == rn && rt.revisions[1] == r[1] && rt.revisions[2] == r[2]);
    assert!(rt.revisions[0] >= rt.revisions[1] && rt.revisions[1] >= rt.revisions[2]);
    assert!(rt.cancellation_count() == 0);
    assert!(as_ref_revs(rt.revisions) == refs::ref_new_revision(as_ref_revs(r)));
    vcover!();
    std::mem::forget(rt);
}

//@ob id=K-RT-2 kind=C props=C01,C02,C03,C04 fn=Runtime::report_tracked_write
//@ pre: any monotone revision vector, any durability in {LOW, MEDIUM, HIGH}
//@ post: levels 1..=d := current revision, level 0 and levels above d unchanged; monotone invariant preserved; result == refs::ref_write
#[cfg_attr(kani, kani::proof)]
#[cfg_attr(kani, kani::unwind(5))]
#[cfg_attr(salsa_verif_replay, test)]
fn k_rt_2_report_tracked_write() {
    let (mut rt, r) = any_runtime();
    let d = vk::any_writable_durability();
    rt.report_tracked_write(d);
    assert!(rt.revisions[0] == r[0]);
    let mut i = 1;
    while i < 3 {
        if i <= d.index() {
            assert!(rt.revisions[i] == r[0]);
        } else {
            assert!(rt.revisions[i] == r[i]);
        }
        i += 1;
    }
    assert!(rt.revisions[0] >= rt.revisions[1] && rt.revisions[1] >= rt.revisions[2]);
    assert!(as_ref_revs(rt.revisions) == refs::ref_write(as_ref_revs(r), d.index() as u8));
    vcover!();
    std::mem::forget(rt);
}

//@ob id=K-RT-2p kind=C props=C02 fn=Runtime::report_tracked_write flags=should_panic
//@ pre: any monotone revision vector, durability NEVER_CHANGE
//@ post: panics with "never-changing inputs cannot be mutated" (and nothing else fails before it)
//@ panic: never-changing inputs cannot be mutated
#[cfg_attr(kani, kani::proof)]
#[cfg_attr(kani, kani::unwind(5))]
#[cfg_attr(kani, kani::should_panic)]
#[cfg_attr(salsa_verif_replay, test)]
#[cfg_attr(salsa_verif_replay, should_panic(expected = "never-changing inputs cannot be mutated"))]
fn k_rt_2p_never_change_write_panics() {
    let (mut rt, _r) = any_runtime();
    rt.report_tracked_write(Durability::NEVER_CHANGE);
    std::mem::forget(rt);
}

//@ob id=K-RT-3 kind=C props=C01,C02,C03,C04 fn=Runtime::last_changed_revision,Runtime::current_revision,never_changed_revision
//@ pre: any monotone revision vector, any of the four durabilities
//@ post: level d for d <= HIGH; Revision::start() for NEVER_CHANGE (never later than anything); LOW gives the current revision; result == refs::ref_last_changed; higher durability never reports a later revision
#[cfg_attr(kani, kani::proof)]
#[cfg_attr(kani, kani::unwind(5))]
#[cfg_attr(salsa_verif_replay, test)]
fn k_rt_3_last_changed() {
    let (rt, r) = any_runtime();
    let d = vk::any_durability();
    let lc = rt.last_changed_revision(d);
    if d == Durability::NEVER_CHANGE {
        assert!(lc == Revision::start());
    } else {
        assert!(lc == r[d.index()]);
    }
    assert!(rt.last_changed_revision(Durability::LOW) == rt.current_revision());
    assert!(lc.as_usize() == refs::ref_last_changed(as_ref_revs(r), d.index() as u8));
    let d2 = vk::any_durability();
    if d2 >= d {
        assert!(rt.last_changed_revision(d2) <= lc);
    }
    vcover!();
    std::mem::forget(rt);
}

//@ob id=K-RT-4 kind=C props=C20 fn=Runtime::bump_cancellation_count,Runtime::cancellation_count,Runtime::set_cancellation_flag,Runtime::reset_cancellation_flag,Runtime::load_cancellation_flag
//@ pre: any cancellation count (u8)
//@ post: bump returns overflow <=> count == 255 (count then unchanged), else count+1; flag set/reset/load are consistent
#[cfg_attr(kani, kani::proof)]
#[cfg_attr(kani, kani::unwind(5))]
#[cfg_attr(salsa_verif_replay, test)]
fn k_rt_4_cancellation_count() {
    let mut rt = Runtime::default();
    let cc: u8 = vk::any();
    *rt.cancellation_count.get_mut() = cc;
    let overflow = rt.bump_cancellation_count();
    assert!(overflow == (cc == 255));
    assert!(rt.cancellation_count() == if cc == 255 { 255 } else { cc + 1 });
    assert!(!rt.load_cancellation_flag());
    rt.set_cancellation_flag();
    assert!(rt.load_cancellation_flag());
    rt.reset_cancellation_flag();
    assert!(!rt.load_cancellation_flag());
    vcover!();
    std::mem::forget(rt);
}


/// Put the runtime at cancellation count `n` of the current revision.
pub(crate) fn set_cancellation_count(rt: &mut Runtime, n: u8) {
    *rt.cancellation_count.get_mut() = n;
}
