//! Child module of `crate::memo_ingredient_indices`.
use super::*;

/// The singleton memo-slot map of a function over a plain salsa struct.
pub(crate) fn singleton(i: usize) -> MemoIngredientSingletonIndex {
    MemoIngredientSingletonIndex(MemoIngredientIndex::from_usize(i))
}
