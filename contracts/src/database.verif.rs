//! Child module of `crate::database`: the default methods of the `Database` trait that the write /
//! untracked-read mechanisms of C02 and C04 go through, on a handle over a bare `Zalsa`.
use super::*;
use crate::function::verif::HDb;
use crate::verif_support::{self as vk, vcover};
use crate::zalsa_local::ZalsaLocal;

//@ob id=K-DB-1 kind=C props=C04 timeout=900 fn=Database::report_untracked_read,ZalsaLocal::report_untracked_read,ActiveQuery::add_untracked_read
//@ pre: any monotone revision vector; a query is executing (real query stack) with any stamp; its body calls `db.report_untracked_read()`
//@ post: the executing query is marked as having read untracked state, its durability drops to LOW and its changed_at becomes the **current revision** (so it can never be backdated below now and is re-executed in every later revision, K-C04-1 / K-MCA-4)
#[cfg_attr(kani, kani::proof)]
#[cfg_attr(kani, kani::unwind(5))]
#[cfg_attr(salsa_verif_replay, test)]
fn k_db_1_report_untracked_read() {
    let mut z = crate::zalsa::verif::bare_zalsa();
    let (r0, r1, r2) = (vk::any_revision(), vk::any_revision(), vk::any_revision());
    vk::assume(r0 >= r1 && r1 >= r2);
    crate::runtime::verif::set_revs(z.runtime_mut(), [r0, r1, r2]);
    let db = HDb { zalsa: z, local: crate::zalsa_local::verif::local_static() };
    let frame = db.local.push_query(vk::key(3, 1));
    let (d, c) = (vk::any_durability(), vk::any_revision());
    vk::assume(c <= r0);
    crate::zalsa_local::verif::set_top_stamp(&db.local, d, c);
    db.report_untracked_read();
    let (_, stamp) = db.local.active_query().unwrap();
    assert!(stamp.durability == Durability::LOW);
    assert!(stamp.changed_at == r0);
    assert!(crate::zalsa_local::verif::top_frame_is_untracked(&db.local));
    vcover!();
    std::mem::forget(frame);
    std::mem::forget(db);
}

//@ob id=K-DB-2 kind=C props=C02 timeout=900 fn=Database::synthetic_write,Zalsa::new_revision,Runtime::report_tracked_write
//@ pre: any monotone revision vector (current < usize::MAX); a synthetic write of any writable durability d
//@ post: a new revision has started (current + 1) and, from the point of view of every memo of durability <= d, something changed now (`last_changed_revision` = the new revision); levels above d are untouched (a more durable memo still passes the shallow check)
#[cfg_attr(kani, kani::proof)]
#[cfg_attr(kani, kani::unwind(5))]
#[cfg_attr(salsa_verif_replay, test)]
fn k_db_2_synthetic_write() {
    let mut z = crate::zalsa::verif::bare_zalsa();
    let (r0, r1, r2) = (vk::any_revision(), vk::any_revision(), vk::any_revision());
    vk::assume(r0 >= r1 && r1 >= r2);
    crate::runtime::verif::set_revs(z.runtime_mut(), [r0, r1, r2]);
    let mut db = HDb { zalsa: z, local: crate::zalsa_local::verif::local_static() };
    let d = vk::any_writable_durability();
    db.synthetic_write(d);
    let now = db.zalsa.current_revision();
    assert!(now == r0.next());
    let rt = db.zalsa.runtime();
    assert!(rt.last_changed_revision(Durability::LOW) == now);
    if d >= Durability::MEDIUM {
        assert!(rt.last_changed_revision(Durability::MEDIUM) == now);
    } else {
        assert!(rt.last_changed_revision(Durability::MEDIUM) == r1);
    }
    if d >= Durability::HIGH {
        assert!(rt.last_changed_revision(Durability::HIGH) == now);
    } else {
        assert!(rt.last_changed_revision(Durability::HIGH) == r2);
    }
    vcover!();
    std::mem::forget(db);
}

//@ob id=K-DB-2p kind=C props=C02 timeout=900 fn=Database::synthetic_write flags=should_panic
//@ pre: a synthetic write of the never-change durability
//@ post: panics ("never-changing inputs cannot be mutated")
//@ panic: never-changing inputs cannot be mutated
#[cfg(kani)]
#[kani::proof]
#[kani::unwind(5)]
#[kani::should_panic]
fn k_db_2p_never_change_synthetic_write_panics() {
    let mut db = HDb { zalsa: crate::zalsa::verif::bare_zalsa(), local: crate::zalsa_local::verif::local_static() };
    db.synthetic_write(Durability::NEVER_CHANGE);
    std::mem::forget(db);
}
