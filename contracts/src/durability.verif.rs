//! Child module of `crate::durability`.
use super::*;
use crate::verif_support::{self as vk, vcover};

//@ob id=K-DUR-1 kind=C props=C02,C01,C03 fn=Durability::index,Durability::cmp,DurabilityVal::from
//@ pre: every pair of durabilities (4 x 4)
//@ post: LOW < MEDIUM < HIGH < NEVER_CHANGE; index() is 0..3 and order preserving; MIN == LOW; MAX == NEVER_CHANGE; LEN == 3 (NEVER_CHANGE has no revision slot); From<u8> inverts index
#[cfg_attr(kani, kani::proof)]
#[cfg_attr(salsa_verif_replay, test)]
fn k_dur_1_order() {
    let a: u8 = vk::any();
    let b: u8 = vk::any();
    vk::assume(a <= 3 && b <= 3);
    let da = vk::durability_of(a);
    let db = vk::durability_of(b);
    assert!(da.index() == a as usize);
    assert!((da < db) == (a < b));
    assert!((da == db) == (a == b));
    assert!(std::cmp::min(da, db).index() == std::cmp::min(a, b) as usize);
    assert!(Durability(DurabilityVal::from(a)) == da);
    assert!(Durability::LOW < Durability::MEDIUM && Durability::MEDIUM < Durability::HIGH && Durability::HIGH < Durability::NEVER_CHANGE);
    assert!(Durability::MIN == Durability::LOW && Durability::MAX == Durability::NEVER_CHANGE);
    assert!(Durability::LEN == 3);
    assert!(Durability::default() == Durability::LOW);
    vcover!();
}
