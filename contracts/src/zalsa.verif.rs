//! Child module of `crate::zalsa`: bare `Zalsa`, oracle ingredient, and the obligations on
//! `IngredientIndex`, `Zalsa::{unwind_if_revision_cancelled,new_revision,evict_lru}`.
use super::*;
use crate::verif_support::{self as vk, vcover};

/// A real `Zalsa` (real `Runtime`, real `Table`) with no jars and no views.
pub(crate) fn bare_zalsa() -> Zalsa {
    Zalsa {
        views_of: crate::views::verif::empty_views(),
        jar_map: HashMap::default(),
        ingredient_to_id_struct_type_id_map: Default::default(),
        ingredients_vec: Vec::new(),
        ingredients_requiring_reset: Vec::new(),
        runtime: Runtime::default(),
        memo_ingredient_indices: Default::default(),
        event_callback: None,
        #[cfg(not(feature = "inventory"))]
        nonce: NONCE.nonce(),
    }
}

impl Zalsa {
    pub(crate) fn verif_n_ingredients(&self) -> usize {
        self.ingredients_vec.len()
    }
    /// What `Zalsa::insert_jar` does with each ingredient a jar creates (minus the jar map).
    pub(crate) fn verif_push(&mut self, ingredient: Box<dyn Ingredient>) {
        let expected_index = ingredient.ingredient_index();
        if ingredient.requires_reset_for_new_revision() {
            self.ingredients_requiring_reset.push(expected_index);
        }
        self.ingredients_vec.push(ingredient);
        assert!(expected_index.as_u32() as usize == self.ingredients_vec.len() - 1);
    }
}

/// Records which `Cancelled` variant was thrown; stands in for `Cancelled::throw` (which unwinds).
pub(crate) static mut THROWN: u8 = 0;
#[cfg(kani)]
pub(crate) fn throw_stub(c: crate::Cancelled) -> ! {
    // SAFETY: single-threaded
    unsafe {
        THROWN = match c {
            crate::Cancelled::Local => 1,
            crate::Cancelled::PendingWrite => 2,
            crate::Cancelled::PropagatedPanic => 3,
        };
    }
    // the throwing path ends here; what must hold *at the throw* is asserted by `throw_expect`
    let expect = unsafe { THROW_EXPECT };
    assert!(expect == 0xFF || expect == unsafe { THROWN }, "wrong cancellation variant thrown");
    kani::assume(false);
    loop {}
}
/// 0xFF = any variant may be thrown; 0 = no throw allowed; n = only variant n.
pub(crate) static mut THROW_EXPECT: u8 = 0xFF;

impl IngredientIndex {
    pub(crate) fn verif_raw(self) -> u32 {
        self.0
    }
}

#[cfg(kani)]
impl kani::Arbitrary for IngredientIndex {
    fn any() -> Self {
        IngredientIndex(kani::any())
    }
}

//@ob id=K-ING-1a kind=C props=C25 fn=IngredientIndex::with_tag
//@ pre: any 32-bit raw index (tagged or not), any tag
//@ post: (contract on the real fn) result == (raw & 0x7FFF_FFFF) | (tag << 31)
#[cfg(kani)]
#[kani::proof_for_contract(IngredientIndex::with_tag)]
fn k_ing_1a_with_tag_contract() {
    let i: IngredientIndex = kani::any();
    let _ = i.with_tag(kani::any());
}

//@ob id=K-ING-1b kind=C props=C25 fn=IngredientIndex::new,IngredientIndex::as_u32,IngredientIndex::tag,IngredientIndex::with_tag
//@ pre: v <= 0x7FFF_FFFF
//@ post: as_u32(new(v)) == v; !tag(new(v)); tag(with_tag(x,t)) == t; with_tag(with_tag(x,t),false) == x; with_tag keeps the low 31 bits
#[cfg_attr(kani, kani::proof)]
#[cfg_attr(salsa_verif_replay, test)]
fn k_ing_1b_index_roundtrip() {
    let v: u32 = vk::any();
    vk::assume(v <= 0x7FFF_FFFF);
    let x = IngredientIndex::new(v);
    assert!(x.as_u32() == v);
    assert!(!x.tag());
    let t: bool = vk::any();
    let y = x.with_tag(t);
    assert!(y.tag() == t);
    assert!(y.as_u32() & 0x7FFF_FFFF == v);
    assert!(y.with_tag(false) == x);
    assert!((y.as_u32() >> 31 == 1) == t);
    vcover!();
}

//@ob id=K-Z-1 kind=C props=C20,C21 fn=Zalsa::unwind_if_revision_cancelled,ZalsaLocal::unwind_cancelled,ZalsaLocal::unwind_pending_write flags=stub,noreplay
//@ pre: any cancellation flag, any token state (cancelled, disabled)
//@ post: returns <=> flag clear && !(cancelled && !disabled); Cancelled::Local is thrown iff (cancelled && !disabled), else PendingWrite iff flag set (variant checked at the throw)
#[cfg(kani)]
#[kani::proof]
#[kani::stub(crate::cancelled::Cancelled::throw, throw_stub)]
fn k_z_1_unwind_if_cancelled() {
    let z = bare_zalsa();
    let local = crate::zalsa_local::verif::local_static();
    let flag: bool = kani::any();
    if flag {
        z.runtime().set_cancellation_flag();
    }
    let tok = local.cancellation_token();
    let cancel: bool = kani::any();
    let disabled: bool = kani::any();
    if cancel {
        tok.cancel();
    }
    if disabled {
        local.set_cancellation_disabled(true);
    }
    // SAFETY: single threaded
    unsafe {
        THROW_EXPECT = if cancel && !disabled { 1 } else if flag { 2 } else { 0 };
    }
    z.unwind_if_revision_cancelled(&local);
    // reaching here means nothing was thrown
    assert!(!flag && !(cancel && !disabled));
    kani::cover!(true, "end-of-harness reachable");
    std::mem::forget(z);
    std::mem::forget(local);
}

// ---------------------------------------------------------------------------------------------
// Oracle ingredient: every possible behaviour of a dependency, with a call log.
// ---------------------------------------------------------------------------------------------
pub(crate) mod oracle {
    use super::*;
    use crate::function::VerifyResult;
    use crate::hash::{FxHashSet, FxIndexSet};
    use crate::sync::Arc;
    use crate::table::memo::MemoTableTypes;
    use crate::zalsa_local::QueryEdge;
    use crate::DatabaseKeyIndex;

    pub(crate) const MAX_LOG: usize = 6;
    pub(crate) const MCA: u8 = 0;
    pub(crate) const VALIDATED: u8 = 1;
    pub(crate) const REMOVED: u8 = 2;
    pub(crate) const RESET: u8 = 3;
    #[derive(Copy, Clone)]
    pub(crate) struct Call {
        pub kind: u8,
        pub ing: u32,
        pub id: Id,
        pub rev: usize,
        pub changed: bool,
        pub executor: Option<DatabaseKeyIndex>,
    }
    pub(crate) struct Log {
        pub n: usize,
        pub calls: [Option<Call>; MAX_LOG],
    }
    pub(crate) static mut LOG: Log = Log { n: 0, calls: [None; MAX_LOG] };
    fn log(c: Call) {
        // SAFETY: single-threaded harness
        unsafe {
            let log = &mut *(&raw mut LOG);
            if log.n < MAX_LOG {
                log.calls[log.n] = Some(c);
            }
            log.n += 1;
        }
    }
    pub(crate) fn the_log() -> &'static Log {
        // SAFETY: single-threaded harness
        unsafe { &*(&raw const LOG) }
    }
    #[derive(Debug)]
    pub(crate) struct Oracle {
        pub index: IngredientIndex,
        pub accumulated: bool,
        /// present itself as a *function* ingredient whose provisional status is `HEAD_STATUS`
        pub as_fn: bool,
    }
    /// What the oracle function ingredient reports for every key: (is final, iteration stamp, verified_at).
    pub(crate) static mut HEAD_STATUS: (bool, crate::cycle::IterationStamp, usize) = (true, crate::cycle::IterationStamp::initial(0), 1);
    impl crate::function::FunctionIngredient for Oracle {
        fn memo<'db>(&'db self, _: &'db Zalsa, _: Id) -> Option<crate::function::ErasedMemo<'db>> {
            None
        }
        fn sync_table(&self) -> &crate::function::SyncTable {
            unreachable!("oracle function ingredient has no claim table")
        }
        fn provisional_status<'db>(&'db self, _: &'db Zalsa, _: Id) -> Option<crate::cycle::ProvisionalStatus<'db>> {
            // SAFETY: single-threaded harness
            let (fin, iteration, va) = unsafe { HEAD_STATUS };
            let verified_at = Revision::from(va);
            Some(if fin {
                crate::cycle::ProvisionalStatus::Final { iteration, verified_at }
            } else {
                crate::cycle::ProvisionalStatus::Poisoned { iteration, verified_at }
            })
        }
    }
    impl Ingredient for Oracle {
        fn debug_name(&self) -> &'static str {
            "oracle"
        }
        fn location(&self) -> &'static crate::ingredient::Location {
            &crate::ingredient::Location { file: "", line: 0 }
        }
        fn jar_kind(&self) -> JarKind {
            JarKind::Struct
        }
        unsafe fn maybe_changed_after(
            &self,
            _z: &Zalsa,
            _db: crate::database::RawDatabase<'_>,
            input: Id,
            revision: Revision,
        ) -> VerifyResult {
            let changed: bool = vk::any();
            log(Call { kind: MCA, ing: self.index.as_u32(), id: input, rev: revision.as_usize(), changed, executor: None });
            if changed {
                VerifyResult::changed()
            } else if self.accumulated {
                let acc: bool = vk::any();
                VerifyResult::unchanged_with_accumulated(if acc {
                    crate::accumulator::accumulated_map::InputAccumulatedValues::Any
                } else {
                    crate::accumulator::accumulated_map::InputAccumulatedValues::Empty
                })
            } else {
                VerifyResult::unchanged()
            }
        }
        fn collect_minimum_serialized_edges(&self, _: &Zalsa, _: QueryEdge, _: &mut FxIndexSet<QueryEdge>, _: &mut FxHashSet<QueryEdge>) {}
        fn mark_validated_output(&self, _z: &Zalsa, executor: DatabaseKeyIndex, output_key: Id) {
            log(Call { kind: VALIDATED, ing: self.index.as_u32(), id: output_key, rev: 0, changed: false, executor: Some(executor) });
        }
        fn remove_stale_output(&self, _z: &Zalsa, executor: DatabaseKeyIndex, key: Id) {
            log(Call { kind: REMOVED, ing: self.index.as_u32(), id: key, rev: 0, changed: false, executor: Some(executor) });
        }
        fn ingredient_index(&self) -> IngredientIndex {
            self.index
        }
        fn as_function(&self) -> Option<crate::function::FunctionIngredientRef<'_>> {
            if self.as_fn {
                Some(crate::function::verif::fn_ref(self))
            } else {
                None
            }
        }
        fn requires_reset_for_new_revision(&self) -> bool {
            true
        }
        fn reset_for_new_revision(&mut self, _t: &mut Table) {
            // SAFETY: small index
            log(Call { kind: RESET, ing: self.index.as_u32(), id: unsafe { Id::from_index(0) }, rev: 0, changed: false, executor: None });
        }
        fn memo_table_types(&self) -> &Arc<MemoTableTypes> {
            unreachable!()
        }
        fn memo_table_types_mut(&mut self) -> &mut Arc<MemoTableTypes> {
            unreachable!()
        }
        fn flatten_cycle_head_dependencies(&self, _: &Zalsa, _: Id, _: &mut FxIndexSet<QueryEdge>, _: &mut FxHashSet<DatabaseKeyIndex>) {}
    }
    /// A bare `Zalsa` whose ingredients `0..n` are oracles.
    pub(crate) fn zalsa_with_oracles(n: u32, accumulated: bool) -> Zalsa {
        let mut z = bare_zalsa();
        let mut i = 0;
        while i < n {
            z.ingredients_vec.push(Box::new(Oracle { index: IngredientIndex::new(i), accumulated, as_fn: false }));
            i += 1;
        }
        z
    }
    /// A bare `Zalsa` whose ingredient 0 is an oracle *function* ingredient.
    pub(crate) fn zalsa_with_fn_oracle() -> Zalsa {
        let mut z = bare_zalsa();
        z.ingredients_vec.push(Box::new(Oracle { index: IngredientIndex::new(0), accumulated: false, as_fn: true }));
        z
    }
    /// A `RawDatabase` that is never dereferenced (the oracle ignores it).
    pub(crate) fn dangling_db<'a>() -> crate::database::RawDatabase<'a> {
        // SAFETY: `RawDatabase` wraps a `NonNull`; the oracle never dereferences it.
        unsafe { std::mem::transmute::<std::ptr::NonNull<()>, crate::database::RawDatabase<'a>>(std::ptr::NonNull::dangling()) }
    }

    //@off(cbmc-does-not-finish) id=K-Z-2 kind=B bound=3-ingredients,1-registered props=C05 fn=Zalsa::new_revision,Zalsa::evict_lru
    //@ pre: 3 ingredients, exactly one (symbolic which) registered as requiring reset; choose new_revision or evict_lru
    //@ post: reset_for_new_revision is called exactly once, on the registered ingredient; new_revision returns current+1 and installs it; evict_lru leaves the revision alone
    #[cfg_attr(kani, kani::proof)]
    #[cfg_attr(kani, kani::unwind(5))]
    #[cfg_attr(salsa_verif_replay, test)]
    fn k_z_2_reset_on_new_revision() {
        let mut z = zalsa_with_oracles(3, false);
        let which: u32 = vk::any();
        vk::assume(which < 3);
        z.ingredients_requiring_reset.push(IngredientIndex::new(which));
        let r0 = z.current_revision();
        let evict_only: bool = vk::any();
        if evict_only {
            z.evict_lru();
            assert!(z.current_revision() == r0);
        } else {
            let r = z.new_revision();
            assert!(r == r0.next() && z.current_revision() == r);
        }
        let log = the_log();
        assert!(log.n == 1);
        let c = log.calls[0].unwrap();
        assert!(c.kind == RESET && c.ing == which);
        vcover!();
        std::mem::forget(z);
    }
}
