//! Child module of `crate::function::memo`: obligations on the configuration-independent
//! `MemoHeader`.
use super::*;
use crate::verif_support::{self as vk, vcover};
use crate::zalsa_local::verif::{empty_derived, extra_with_head, revs};
use crate::zalsa_local::{OriginAndExtra, QueryEdge};
use crate::Durability;

/// A header with the given scalar state and origin.
pub(crate) fn header(verified_at: Revision, d: Durability, changed_at: Revision, vf: bool, origin: OriginAndExtra) -> MemoHeader {
    MemoHeader { verified_at: AtomicRevision::from(verified_at), revisions: revs(d, changed_at, vf, origin) }
}

//@ob id=K-MEMO-1 kind=C props=C04,C05,C10 fn=MemoHeader::can_evict_value,MemoHeader::origin
//@ pre: a memo of each origin kind (derived, derived-untracked, assigned), any durability/revisions/finality
//@ post: the value may be evicted <=> the origin is fully tracked Derived (untracked and assigned values cannot be reconstructed)
#[cfg_attr(kani, kani::proof)]
#[cfg_attr(kani, kani::unwind(4))]
#[cfg_attr(salsa_verif_replay, test)]
fn k_memo_1_can_evict() {
    let which: u8 = vk::any();
    vk::assume(which < 3);
    let origin = match which {
        0 => OriginAndExtra::derived_untracked(std::iter::empty(), Default::default()),
        1 => OriginAndExtra::assigned(vk::key(0, 2)),
        _ => empty_derived(),
    };
    let h = header(vk::any_revision(), vk::any_durability(), vk::any_revision(), vk::any(), origin);
    assert!(h.can_evict_value() == (which == 2));
    vcover!();
    std::mem::forget(h);
}

//@ob id=K-MEMO-2 kind=C props=C01,C03,C10 fn=MemoHeader::mark_as_verified,MemoHeader::may_be_provisional,MemoHeader::cycle_heads,MemoHeader::was_cycle_participant
//@ pre: bare Zalsa after 0..2 new revisions; memo with/without one cycle head, any finality flag
//@ post: may_be_provisional <=> !verified_final; cycle_heads() is the stored set iff provisional else empty; was_cycle_participant <=> stored set non-empty; mark_as_verified stores exactly the current revision and touches nothing else
#[cfg_attr(kani, kani::proof)]
#[cfg_attr(kani, kani::unwind(5))]
#[cfg_attr(salsa_verif_replay, test)]
fn k_memo_2_verified_and_provisional() {
    let mut z = crate::zalsa::verif::bare_zalsa();
    if vk::any() {
        z.runtime_mut().new_revision();
    }
    if vk::any() {
        z.runtime_mut().new_revision();
    }
    let cur = z.current_revision();
    let vf: bool = vk::any();
    let has_head: bool = vk::any();
    let stamp = crate::cycle::IterationStamp::initial(vk::any());
    let origin = if has_head {
        OriginAndExtra::derived(std::iter::empty(), extra_with_head(vk::key(0, 2), stamp))
    } else {
        empty_derived()
    };
    let d = vk::any_durability();
    let c = vk::any_revision();
    let h = header(Revision::start(), d, c, vf, origin);
    assert!(h.may_be_provisional() == !vf);
    assert!(h.cycle_heads().is_empty() == (vf || !has_head));
    assert!(h.was_cycle_participant() == has_head);
    h.mark_as_verified(&z, vk::key(0, 1));
    assert!(h.verified_at.load() == cur);
    assert!(h.revisions.changed_at == c && h.revisions.durability == d);
    assert!(h.may_be_provisional() == !vf);
    vcover!();
    std::mem::forget(h);
    std::mem::forget(z);
}

//@ob id=K-MEMO-3 kind=B bound=1-output-edge props=C01,C06,C10 fn=MemoHeader::mark_outputs_as_verified
//@ pre: memo whose origin holds one input edge and one output edge (oracle ingredients)
//@ post: exactly the output is marked validated, once, with the memo's own key as executor; inputs are not touched
#[cfg_attr(kani, kani::proof)]
#[cfg_attr(kani, kani::unwind(6))]
#[cfg_attr(salsa_verif_replay, test)]
fn k_memo_3_mark_outputs() {
    use crate::zalsa::verif::oracle::*;
    let z = zalsa_with_oracles(2, false);
    let me = vk::key(0, 9);
    let out = vk::key(1, 4);
    let origin = OriginAndExtra::derived([QueryEdge::input(vk::key(0, 3)), QueryEdge::output(out)].into_iter(), Default::default());
    let h = header(Revision::start(), Durability::LOW, Revision::start(), true, origin);
    h.mark_outputs_as_verified(&z, me);
    let log = the_log();
    assert!(log.n == 1);
    let c = log.calls[0].unwrap();
    assert!(c.kind == VALIDATED && c.ing == 1 && c.id == out.key_index() && c.executor == Some(me));
    vcover!();
    std::mem::forget(h);
    std::mem::forget(z);
}
