//! Child module of `crate::function::sync`: a `ClaimGuard` for harnesses that need one as a
//! *parameter* (the claim table itself is beyond CBMC, see DESIGN.md).
use super::*;

/// A guard for a key that is *not* registered in its (leaked) shard; must be `mem::forget`-ed.
pub(crate) fn fake_guard<'a>(zalsa: &'a Zalsa, zalsa_local: &'a ZalsaLocal, ingredient: IngredientIndex, key_index: Id) -> ClaimGuard<'a> {
    let shard: &'static SyncShard = Box::leak(Box::new(SyncShard { syncs: Mutex::default(), ingredient }));
    ClaimGuard { key_index, zalsa, shard, mode: ReleaseMode::Default, zalsa_local }
}


// ---- stand-ins stating the claim table's contract for the modular harnesses of `function.verif.rs` ----
pub(crate) static mut CLAIMS: u32 = 0;
pub(crate) static mut RELEASES: u32 = 0;
/// The key is free: the claim is granted for exactly the requested key.
pub(crate) fn stub_try_claim<'me>(this: &'me SyncTable, zalsa: &'me Zalsa, zalsa_local: &'me ZalsaLocal, key_index: Id, _reentrant: Reentrancy) -> ClaimResult<'me> {
    // SAFETY: single-threaded harness
    unsafe { CLAIMS += 1 };
    ClaimResult::Claimed(fake_guard(zalsa, zalsa_local, this.ingredient, key_index))
}
impl<'me> ClaimGuard<'me> {
    /// Stand-in for `drop_impl`: counts the release; nobody waits in a sequential harness.
    pub(crate) fn verif_release(&mut self) -> bool {
        // SAFETY: single-threaded harness
        unsafe { RELEASES += 1 };
        false
    }
}
/// The key is being executed by this very thread: re-entry is reported as a cycle.
pub(crate) fn stub_try_claim_cycle<'me>(_this: &'me SyncTable, _zalsa: &'me Zalsa, _zalsa_local: &'me ZalsaLocal, _key_index: Id, _reentrant: Reentrancy) -> ClaimResult<'me> {
    ClaimResult::Cycle { inner: false }
}
