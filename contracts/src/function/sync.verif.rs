//! Child module of `crate::function::sync`: a `ClaimGuard` for harnesses that need one as a
//! *parameter* (the claim table itself is beyond CBMC, see DESIGN.md).
use super::*;

/// A guard for a key that is *not* registered in its (leaked) shard; must be `mem::forget`-ed.
pub(crate) fn fake_guard<'a>(zalsa: &'a Zalsa, zalsa_local: &'a ZalsaLocal, ingredient: IngredientIndex, key_index: Id) -> ClaimGuard<'a> {
    let shard: &'static SyncShard = Box::leak(Box::new(SyncShard { syncs: Mutex::default(), ingredient }));
    ClaimGuard { key_index, zalsa, shard, mode: ReleaseMode::Default, zalsa_local }
}

