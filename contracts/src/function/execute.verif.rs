//! Child module of `crate::function::execute`: the non-generic pieces of query execution.
use super::*;
use crate::function::memo::verif::header;
use crate::verif_support::{self as vk, vcover};
use crate::zalsa_local::verif::extra_with_head;
use crate::zalsa_local::OriginAndExtra;
use crate::{Durability, Revision};

//@ob id=K-EXE-1 kind=C props=C20 fn=MemoHeader::previous_iteration flags=stub,noreplay
//@ pre: a provisional memo whose iteration stamp carries cancellation count c_memo and one cycle head (itself or another query); runtime cancellation count c_now; has_value symbolic; `Cancelled::throw` stubbed (records the variant, ends the path)
//@ post: None <=> c_memo != c_now (a memo from another cancellation epoch is never continued); Some(p) => p.iteration is the stored stamp, p.reuse_as_provisional <=> the memo was its own cycle head; a memo without value in the same epoch propagates the panic (PropagatedPanic thrown)
#[cfg(kani)]
#[kani::proof]
#[kani::unwind(4)]
#[kani::stub(crate::cancelled::Cancelled::throw, crate::zalsa::verif::throw_stub)]
fn k_exe_1_previous_iteration() {
    let cc_memo: u8 = kani::any();
    let cc_now: u8 = kani::any();
    let stamp = IterationStamp::initial(cc_memo);
    let me = vk::key(0, 1);
    let head_is_me: bool = kani::any();
    let head = if head_is_me { me } else { vk::key(0, 2) };
    let h = header(Revision::start(), Durability::LOW, Revision::start(), false,
                   OriginAndExtra::derived(std::iter::empty(), extra_with_head(head, stamp)));
    let has_value: bool = kani::any();
    // SAFETY: single threaded
    unsafe {
        crate::zalsa::verif::THROW_EXPECT = if cc_memo == cc_now && !has_value { 3 } else { 0 };
    }
    let r = h.previous_iteration(me, cc_now, has_value);
    match r {
        None => assert!(cc_memo != cc_now),
        Some(p) => {
            assert!(cc_memo == cc_now && has_value);
            assert!(p.iteration == stamp);
            assert!(p.reuse_as_provisional == head_is_me);
        }
    }
    kani::cover!(true, "end-of-harness reachable");
    std::mem::forget(h);
}

//@ob id=K-EXE-2 kind=C props=C21 fn=DisableLocalCancellationGuard::new,DisableLocalCancellationGuard::drop,ZalsaLocal::set_cancellation_disabled,ZalsaLocal::should_trigger_local_cancellation
//@ pre: any token state (cancelled or not, disabled or not) before entering fixpoint iteration
//@ post: while the guard (or a nested one) lives, local cancellation never triggers; after the outermost guard drops the disabled bit is exactly what it was before, so a cancel() issued meanwhile triggers at the next check iff cancellation was enabled before
#[cfg_attr(kani, kani::proof)]
#[cfg_attr(kani, kani::unwind(4))]
#[cfg_attr(salsa_verif_replay, test)]
fn k_exe_2_disable_guard() {
    let local = ZalsaLocal::new();
    let cancelled: bool = vk::any();
    let pre: bool = vk::any();
    let cancel_inside: bool = vk::any();
    if cancelled {
        local.cancellation_token().cancel();
    }
    local.set_cancellation_disabled(pre);
    {
        let _g = DisableLocalCancellationGuard::new(&local);
        assert!(!local.should_trigger_local_cancellation());
        {
            let _g2 = DisableLocalCancellationGuard::new(&local);
            if cancel_inside {
                local.cancellation_token().cancel();
            }
            assert!(!local.should_trigger_local_cancellation());
        }
        assert!(!local.should_trigger_local_cancellation());
    }
    assert!(local.should_trigger_local_cancellation() == ((cancelled || cancel_inside) && !pre));
    vcover!();
    std::mem::forget(local);
}
