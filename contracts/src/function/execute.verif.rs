//! Child module of `crate::function::execute`: the non-generic pieces of query execution.
use super::*;
use crate::function::memo::verif::header;
use crate::verif_support::{self as vk, vcover};
use crate::zalsa_local::verif::extra_with_head;
use crate::zalsa_local::OriginAndExtra;
use crate::{Durability, Revision};

//@ob id=K-EXE-1 kind=C props=C20 fn=MemoHeader::previous_iteration flags=stub,noreplay
//@ pre: a provisional memo whose iteration stamp carries cancellation count c_memo and one cycle head (itself or another query); runtime cancellation count c_now; has_value symbolic; `Cancelled::throw` stubbed (records the variant, ends the path)
//@ post: None <=> c_memo != c_now (a memo from another cancellation epoch is never continued); Some(p) => p.iteration is the stored stamp, p.reuse_as_provisional <=> the memo was its own cycle head; a memo without value in the same epoch propagates the panic (PropagatedPanic thrown)
#[cfg(kani)]
#[kani::proof]
#[kani::unwind(4)]
#[kani::stub(crate::cancelled::Cancelled::throw, crate::zalsa::verif::throw_stub)]
fn k_exe_1_previous_iteration() {
    let cc_memo: u8 = kani::any();
    let cc_now: u8 = kani::any();
    let stamp = IterationStamp::initial(cc_memo);
    let me = vk::key(0, 1);
    let head_is_me: bool = kani::any();
    let head = if head_is_me { me } else { vk::key(0, 2) };
    let h = header(Revision::start(), Durability::LOW, Revision::start(), false,
                   OriginAndExtra::derived(std::iter::empty(), extra_with_head(head, stamp)));
    let has_value: bool = kani::any();
    // SAFETY: single threaded
    unsafe {
        crate::zalsa::verif::THROW_EXPECT = if cc_memo == cc_now && !has_value { 3 } else { 0 };
    }
    let r = h.previous_iteration(me, cc_now, has_value);
    match r {
        None => assert!(cc_memo != cc_now),
        Some(p) => {
            assert!(cc_memo == cc_now && has_value);
            assert!(p.iteration == stamp);
            assert!(p.reuse_as_provisional == head_is_me);
        }
    }
    kani::cover!(true, "end-of-harness reachable");
    std::mem::forget(h);
}

//@ob id=K-EXE-2 kind=C props=C21 fn=DisableLocalCancellationGuard::new,DisableLocalCancellationGuard::drop,ZalsaLocal::set_cancellation_disabled,ZalsaLocal::should_trigger_local_cancellation
//@ pre: any token state (cancelled or not, disabled or not) before entering fixpoint iteration
//@ post: while the guard (or a nested one) lives, local cancellation never triggers; after the outermost guard drops the disabled bit is exactly what it was before, so a cancel() issued meanwhile triggers at the next check iff cancellation was enabled before
#[cfg_attr(kani, kani::proof)]
#[cfg_attr(kani, kani::unwind(4))]
#[cfg_attr(salsa_verif_replay, test)]
fn k_exe_2_disable_guard() {
    let local = crate::zalsa_local::verif::local_static();
    let cancelled: bool = vk::any();
    let pre: bool = vk::any();
    let cancel_inside: bool = vk::any();
    if cancelled {
        local.cancellation_token().cancel();
    }
    local.set_cancellation_disabled(pre);
    {
        let _g = DisableLocalCancellationGuard::new(&local);
        assert!(!local.should_trigger_local_cancellation());
        {
            let _g2 = DisableLocalCancellationGuard::new(&local);
            if cancel_inside {
                local.cancellation_token().cancel();
            }
            assert!(!local.should_trigger_local_cancellation());
        }
        assert!(!local.should_trigger_local_cancellation());
    }
    assert!(local.should_trigger_local_cancellation() == ((cancelled || cancel_inside) && !pre));
    vcover!();
    std::mem::forget(local);
}

// ---- the three places where the fixpoint iteration counter is advanced: a refused increment must panic ----
/// the iteration `complete_cycle_query` (stub) was handed
pub(crate) static mut CCQ_ITER: Option<IterationStamp> = None;
pub(crate) fn stub_complete_cycle_query(_zalsa: &Zalsa, active_query: ActiveQueryGuard<'_>, iteration: IterationStamp) -> CompletedQuery {
    // SAFETY: single-threaded harness
    unsafe { CCQ_ITER = Some(iteration) };
    std::mem::forget(active_query);
    CompletedQuery { revisions: crate::zalsa_local::verif::revs(Durability::LOW, Revision::start(), false, crate::zalsa_local::verif::empty_derived()), stale_tracked_structs: Vec::new() }
}
fn participant_world(iter: u8, epoch: u8) -> (Zalsa, crate::zalsa_local::ZalsaLocal, IterationStamp) {
    (crate::zalsa::verif::bare_zalsa(), crate::zalsa_local::verif::local_static(), crate::cycle::verif::stamp(iter, epoch))
}

//@ob id=K-EXE-3 kind=C props=C15 timeout=900 fn=complete_cycle_participant flags=stubs,noreplay
//@ pre: a query completes as a participant of an outer cycle at any iteration 0..=199 of any cancellation epoch (`complete_cycle_query`, which flattens dependencies through a thread-local pool, is stubbed)
//@ post: the memo is produced for iteration + 1 of the same epoch (never beyond 200) and is provisional
#[cfg(kani)]
#[kani::proof]
#[kani::unwind(4)]
#[kani::stub(crate::function::execute::complete_cycle_query, stub_complete_cycle_query)]
fn k_exe_3_participant_advances_the_counter() {
    let (i, e): (u8, u8) = (kani::any(), kani::any());
    kani::assume(i < 200);
    let (z, l, it) = participant_world(i, e);
    let me = vk::key(2, 1);
    let outer = vk::key(2, 9);
    let frame = l.push_query(me);
    let mut guard = crate::function::sync::verif::fake_guard(&z, &l, me.ingredient_index(), me.key_index());
    let cq = complete_cycle_participant(frame, &mut guard, CycleHeads::initial(outer, it), outer, it);
    // SAFETY: single-threaded harness
    let seen = unsafe { CCQ_ITER }.unwrap();
    assert!(seen.iteration() == i + 1 && seen.iteration() <= 200 && seen.cancellation_count() == e);
    assert!(!cq.revisions.verified_final.load(std::sync::atomic::Ordering::Relaxed));
    kani::cover!(i == 199, "last permitted increment");
    kani::cover!(true, "end-of-harness reachable");
    std::mem::forget(cq);
    std::mem::forget(guard);
    std::mem::forget(l);
    std::mem::forget(z);
}

//@ob id=K-EXE-3p kind=C props=C15 timeout=900 fn=complete_cycle_participant flags=stubs,noreplay,should_panic
//@ pre: as K-EXE-3 but at iteration 200 (the bound of the property text), any cancellation epoch
//@ post: panics with "too many cycle iterations" as the only failure - the counter is never advanced past the bound and no memo is produced
//@ panic: too many cycle iterations
#[cfg(kani)]
#[kani::proof]
#[kani::unwind(4)]
#[kani::should_panic]
#[kani::stub(crate::function::execute::complete_cycle_query, stub_complete_cycle_query)]
fn k_exe_3p_participant_panics_at_the_bound() {
    let e: u8 = kani::any();
    let (z, l, it) = participant_world(200, e);
    let me = vk::key(2, 1);
    let outer = vk::key(2, 9);
    let frame = l.push_query(me);
    let mut guard = crate::function::sync::verif::fake_guard(&z, &l, me.ingredient_index(), me.key_index());
    let cq = complete_cycle_participant(frame, &mut guard, CycleHeads::initial(outer, it), outer, it);
    std::mem::forget(cq);
    std::mem::forget(guard);
    std::mem::forget(l);
    std::mem::forget(z);
}

/// the iteration stamp the stubbed frame pop was handed
pub(crate) static mut POP_ITER: Option<IterationStamp> = None;
impl<'me> ActiveQueryGuard<'me> {
    pub(crate) fn verif_pop_recording(self, iteration: IterationStamp) -> CompletedQuery {
        // SAFETY: single-threaded harness
        unsafe { POP_ITER = Some(iteration) };
        std::mem::forget(self);
        CompletedQuery { revisions: crate::zalsa_local::verif::revs(Durability::LOW, Revision::start(), true, crate::zalsa_local::verif::empty_derived()), stale_tracked_structs: Vec::new() }
    }
}

//@ob id=K-EXE-4 kind=C props=C15 timeout=900 fn=try_complete_query flags=stubs,noreplay
//@ pre: a fixpoint query finishes an execution in which it read no provisional value any more (no cycle heads), at any iteration 0..=199 of any epoch (frame pop stubbed to record the stamp)
//@ post: it completes: with the default stamp if it never iterated, else with iteration + 1 of the same epoch (<= 200)
#[cfg(kani)]
#[kani::proof]
#[kani::unwind(4)]
#[kani::stub(crate::zalsa_local::ActiveQueryGuard::pop, crate::zalsa_local::ActiveQueryGuard::verif_pop_recording)]
#[kani::stub(crate::function::execute::complete_cycle_query, stub_complete_cycle_query)]
fn k_exe_4_completion_without_heads() {
    let (i, e): (u8, u8) = (kani::any(), kani::any());
    kani::assume(i < 200);
    let (z, l, it) = participant_world(i, e);
    let me = vk::key(2, 1);
    let frame = l.push_query(me);
    let mut guard = crate::function::sync::verif::fake_guard(&z, &l, me.ingredient_index(), me.key_index());
    let out = try_complete_query(&z, frame, &mut guard, it);
    assert!(matches!(out, QueryExecutionOutcome::Completed(_)));
    // SAFETY: single-threaded harness
    let seen = unsafe { POP_ITER }.unwrap();
    if i == 0 {
        assert!(seen == IterationStamp::default());
    } else {
        assert!(seen.iteration() == i + 1 && seen.cancellation_count() == e);
    }
    kani::cover!(i == 199, "last permitted increment");
    kani::cover!(true, "end-of-harness reachable");
    std::mem::forget(out);
    std::mem::forget(guard);
    std::mem::forget(l);
    std::mem::forget(z);
}

//@ob id=K-EXE-4p kind=C props=C15 timeout=900 fn=try_complete_query flags=stubs,noreplay,should_panic
//@ pre: as K-EXE-4 at iteration 200
//@ post: panics with "too many cycle iterations" as the only failure
//@ panic: too many cycle iterations
#[cfg(kani)]
#[kani::proof]
#[kani::unwind(4)]
#[kani::should_panic]
#[kani::stub(crate::zalsa_local::ActiveQueryGuard::pop, crate::zalsa_local::ActiveQueryGuard::verif_pop_recording)]
#[kani::stub(crate::function::execute::complete_cycle_query, stub_complete_cycle_query)]
fn k_exe_4p_completion_panics_at_the_bound() {
    let e: u8 = kani::any();
    let (z, l, it) = participant_world(200, e);
    let me = vk::key(2, 1);
    let frame = l.push_query(me);
    let mut guard = crate::function::sync::verif::fake_guard(&z, &l, me.ingredient_index(), me.key_index());
    let out = try_complete_query(&z, frame, &mut guard, it);
    std::mem::forget(out);
    std::mem::forget(guard);
    std::mem::forget(l);
    std::mem::forget(z);
}

/// What the stubbed `complete_cycle_query` reports for the head's execution (K-EXE-5): durability / changed_at of
/// the frame, fully tracked, no edges.
pub(crate) static mut CCQ_STAMP: (u8, usize) = (0, 1);
pub(crate) fn stub_complete_cycle_query_head(_zalsa: &Zalsa, active_query: ActiveQueryGuard<'_>, iteration: IterationStamp) -> CompletedQuery {
    // SAFETY: single-threaded harness
    let (d, c) = unsafe {
        CCQ_ITER = Some(iteration);
        CCQ_STAMP
    };
    std::mem::forget(active_query);
    CompletedQuery { revisions: crate::zalsa_local::verif::revs(vk::durability_of(d), Revision::from(c), false, crate::zalsa_local::verif::empty_derived()), stale_tracked_structs: Vec::new() }
}

//@ob id=K-EXE-5 kind=C props=C15 timeout=1200 fn=try_complete_cycle_head flags=stubs,noreplay
//@ pre: the outermost head of a fixpoint cycle (its only cycle head is itself) finishes an iteration at any stamp with iteration 0..=199; its value converged or not, its durability / changed_at equal to the last provisional memo's or not (all symbolic); `complete_cycle_query` is stubbed
//@ post: converged (value and metadata) => the memo is final and the cycle ends; otherwise the head asks for **another iteration with stamp iteration + 1 of the same epoch** (never beyond 200) and its memo stays provisional with itself as head at that stamp
#[cfg(kani)]
#[kani::proof]
#[kani::unwind(4)]
#[kani::stub(crate::function::execute::complete_cycle_query, stub_complete_cycle_query_head)]
fn k_exe_5_head_iterates_or_finalizes() {
    let (i, e): (u8, u8) = (kani::any(), kani::any());
    kani::assume(i < 200);
    let (z, l, it) = participant_world(i, e);
    let me = vk::key(2, 1);
    let frame = l.push_query(me);
    let mut guard = crate::function::sync::verif::fake_guard(&z, &l, me.ingredient_index(), me.key_index());
    let (ld, lc) = (vk::any_durability(), vk::any_revision());
    let last = crate::zalsa_local::verif::revs(ld, lc, false, crate::zalsa_local::verif::empty_derived());
    let (nd, nc) = (vk::any_durability(), vk::any_revision());
    // SAFETY: single-threaded harness
    unsafe { CCQ_STAMP = (nd.index() as u8, nc.as_usize()) };
    let value_converged: bool = kani::any();
    let r = try_complete_cycle_head(frame, &mut guard, CycleHeads::initial(me, it), &last, None, it, it, value_converged);
    let converged = value_converged && ld == nd && lc == nc;
    match r {
        Ok(cq) => {
            assert!(converged);
            assert!(cq.revisions.verified_final.load(std::sync::atomic::Ordering::Relaxed));
            std::mem::forget(cq);
        }
        Err((cq, next)) => {
            assert!(!converged);
            assert!(next.iteration() == i + 1 && next.iteration() <= 200 && next.cancellation_count() == e);
            assert!(!cq.revisions.verified_final.load(std::sync::atomic::Ordering::Relaxed));
            assert!(cq.revisions.iteration() == next);
            std::mem::forget(cq);
        }
    }
    kani::cover!(converged, "convergence reachable");
    kani::cover!(!converged && i == 199, "last permitted iteration");
    kani::cover!(true, "end-of-harness reachable");
    std::mem::forget(last);
    std::mem::forget(guard);
    std::mem::forget(l);
    std::mem::forget(z);
}

//@ob id=K-EXE-5p kind=C props=C15 timeout=1200 fn=try_complete_cycle_head flags=stubs,noreplay,should_panic
//@ pre: as K-EXE-5 at iteration 200, not converged
//@ post: panics with "too many cycle iterations" as the only failure - a head whose values never stabilise is stopped after at most 200 iterations
//@ panic: too many cycle iterations
#[cfg(kani)]
#[kani::proof]
#[kani::unwind(4)]
#[kani::should_panic]
#[kani::stub(crate::function::execute::complete_cycle_query, stub_complete_cycle_query_head)]
fn k_exe_5p_head_panics_at_the_bound() {
    let e: u8 = kani::any();
    let (z, l, it) = participant_world(200, e);
    let me = vk::key(2, 1);
    let frame = l.push_query(me);
    let mut guard = crate::function::sync::verif::fake_guard(&z, &l, me.ingredient_index(), me.key_index());
    let last = crate::zalsa_local::verif::revs(Durability::LOW, Revision::start(), false, crate::zalsa_local::verif::empty_derived());
    // SAFETY: single-threaded harness
    unsafe { CCQ_STAMP = (0, 1) };
    let r = try_complete_cycle_head(frame, &mut guard, CycleHeads::initial(me, it), &last, None, it, it, false);
    std::mem::forget(r);
    std::mem::forget(last);
    std::mem::forget(guard);
    std::mem::forget(l);
    std::mem::forget(z);
}
