//! Child module of `crate::function::backdate`.
use super::*;
use crate::function::memo::verif::header;
use crate::verif_support::{self as vk, vcover};
use crate::zalsa_local::verif::{empty_derived, extra_with_head, revs};
use crate::zalsa_local::OriginAndExtra;

//@ob id=K-BD-1 kind=C props=C01,C02,C03,C04 fn=MemoHeader::can_backdate
//@ pre: old memo: any durability, any finality; new revisions: any durability, with or without a cycle head
//@ post: can_backdate <=> new has no cycle heads && old is final && new.durability >= old.durability (never backdate a result that became less durable); the untracked flag plays no role
#[cfg_attr(kani, kani::proof)]
#[cfg_attr(kani, kani::unwind(5))]
#[cfg_attr(salsa_verif_replay, test)]
fn k_bd_1_can_backdate() {
    let (od, nd) = (vk::any_durability(), vk::any_durability());
    let ovf: bool = vk::any();
    let new_has_head: bool = vk::any();
    let old_untracked: bool = vk::any();
    let old_origin = if old_untracked {
        OriginAndExtra::derived_untracked(std::iter::empty(), Default::default())
    } else {
        empty_derived()
    };
    let old = header(vk::any_revision(), od, vk::any_revision(), ovf, old_origin);
    let stamp = crate::cycle::IterationStamp::initial(vk::any());
    let new_origin = if new_has_head {
        OriginAndExtra::derived(std::iter::empty(), extra_with_head(vk::key(0, 2), stamp))
    } else {
        empty_derived()
    };
    let new = revs(nd, vk::any_revision(), !new_has_head, new_origin);
    let r = old.can_backdate(&new);
    assert!(r == (!new_has_head && ovf && nd >= od));
    vcover!();
    std::mem::forget(old);
    std::mem::forget(new);
}

//@ob id=K-BD-2 kind=C props=C01,C03,C04 fn=MemoHeader::backdate
//@ pre: old.changed_at <= new.changed_at (the new execution cannot have changed earlier than the old one)
//@ post: new.changed_at := old.changed_at (only ever moved back to the old memo's value); new.durability, origin and finality untouched; old memo untouched
#[cfg_attr(kani, kani::proof)]
#[cfg_attr(kani, kani::unwind(5))]
#[cfg_attr(salsa_verif_replay, test)]
fn k_bd_2_backdate() {
    let (od, nd) = (vk::any_durability(), vk::any_durability());
    let (oc, nc) = (vk::any_revision(), vk::any_revision());
    vk::assume(oc <= nc);
    let old = header(vk::any_revision(), od, oc, true, empty_derived());
    let mut new = revs(nd, nc, true, empty_derived());
    old.backdate(vk::key(0, 1), &mut new);
    assert!(new.changed_at == oc);
    assert!(new.changed_at <= nc);
    assert!(new.durability == nd);
    assert!(old.revisions.changed_at == oc && old.revisions.durability == od);
    assert!(matches!(new.origin(), crate::zalsa_local::QueryOriginRef::Derived(_)));
    vcover!();
    std::mem::forget(old);
    std::mem::forget(new);
}
