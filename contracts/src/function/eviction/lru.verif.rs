//! Child module of `crate::function::eviction::lru` (the unbounded proof of the eviction loop is the
//! Verus unit V-LRU-1 on the extracted function; this is the disabled-capacity corner on the real type).
use super::*;
use crate::verif_support::{self as vk, vcover};

//@ob id=K-LRU-1 kind=C props=C05 fn=Lru::new,Lru::record_use,Lru::for_each_evicted,Lru::set_capacity
//@ pre: an LRU created with capacity 0 (eviction disabled); any id is used
//@ post: record_use does not remember the id; for_each_evicted evicts nothing; set_capacity(c) installs capacity c (0 = disabled)
#[cfg_attr(kani, kani::proof)]
#[cfg_attr(kani, kani::unwind(4))]
#[cfg_attr(salsa_verif_replay, test)]
fn k_lru_1_disabled() {
    let mut lru = Lru::new(0);
    assert!(lru.capacity.is_none());
    lru.record_use(vk::any_id());
    assert!(lru.set.get_mut().is_empty());
    let mut evicted = 0u32;
    lru.for_each_evicted(|_| evicted += 1);
    assert!(evicted == 0);
    let c: usize = vk::any();
    lru.set_capacity(c);
    assert!(lru.capacity.map_or(0, |n| n.get()) == c);
    vcover!();
    std::mem::forget(lru);
}
