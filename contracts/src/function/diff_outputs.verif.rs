//! Child module of `crate::function::diff_outputs`.
use super::*;
use crate::function::memo::verif::header;
use crate::tracked_struct::verif::identity;
use crate::verif_support::{self as vk, vcover};
use crate::zalsa::verif::oracle::*;
use crate::zalsa_local::verif::{empty_derived, revs};
use crate::zalsa_local::{OriginAndExtra, QueryEdge};
use crate::{Durability, Revision};

//@off(cbmc-does-not-finish) id=K-DIFF-1 kind=B bound=2-stale-structs props=C06,C07 timeout=900 fn=MemoHeader::diff_outputs,report_stale_output,DatabaseKeyIndex::remove_stale_output
//@ pre: old memo with no output edges (derived or derived-untracked); the new execution reports 0, 1 or 2 stale tracked structs (symbolic count, oracle ingredients)
//@ post: every stale struct is handed to remove_stale_output exactly once, in order, with the executing query as executor, addressed to its own ingredient; nothing else is removed
#[cfg_attr(kani, kani::proof)]
#[cfg_attr(kani, kani::unwind(6))]
#[cfg_attr(salsa_verif_replay, test)]
fn k_diff_1_stale_structs() {
    let z = zalsa_with_oracles(2, false);
    let me = vk::key(0, 99);
    let untracked: bool = vk::any();
    let old_origin = if untracked {
        OriginAndExtra::derived_untracked([QueryEdge::input(vk::key(0, 1))].into_iter(), Default::default())
    } else {
        OriginAndExtra::derived([QueryEdge::input(vk::key(0, 1))].into_iter(), Default::default())
    };
    let old = header(Revision::start(), Durability::LOW, Revision::start(), true, old_origin);
    let n: u8 = vk::any();
    vk::assume(n <= 2);
    let s0 = (identity(1, 7, 0), vk::key(1, 20).key_index());
    let s1 = (identity(1, 7, 1), vk::key(1, 21).key_index());
    let mut stale = Vec::new();
    if n >= 1 {
        stale.push(s0);
    }
    if n >= 2 {
        stale.push(s1);
    }
    let completed = CompletedQuery { revisions: revs(Durability::LOW, Revision::start(), true, empty_derived()), stale_tracked_structs: stale };
    old.diff_outputs(&z, me, &completed);
    let log = the_log();
    assert!(log.n == n as usize);
    if n >= 1 {
        let c = log.calls[0].unwrap();
        assert!(c.kind == REMOVED && c.ing == 1 && c.id == s0.1 && c.executor == Some(me));
    }
    if n >= 2 {
        let c = log.calls[1].unwrap();
        assert!(c.kind == REMOVED && c.ing == 1 && c.id == s1.1 && c.executor == Some(me));
    }
    vcover!();
    std::mem::forget(old);
    std::mem::forget(completed);
    std::mem::forget(z);
}
