//! Child module of `crate::function::diff_outputs`.
use super::*;
use crate::function::memo::verif::header;
use crate::tracked_struct::verif::identity;
use crate::verif_support::{self as vk, vcover};
use crate::zalsa::verif::oracle::*;
use crate::zalsa_local::verif::{empty_derived, revs};
use crate::zalsa_local::{OriginAndExtra, QueryEdge};
use crate::{Durability, Revision};

//@ob id=K-DIFF-1 kind=B bound=2-stale-structs props=C06,C07 timeout=900 fn=MemoHeader::diff_outputs,report_stale_output,DatabaseKeyIndex::remove_stale_output
//@ pre: old memo with no output edges (derived or derived-untracked, symbolic); the new execution reports 2 stale tracked structs (any ids; the count is a harness constant: a vector of symbolic length exhausts CBMC's memory)
//@ post: every stale struct is handed to remove_stale_output exactly once, in order, with the executing query as executor, addressed to its own ingredient; nothing else is removed
#[cfg_attr(kani, kani::proof)]
#[cfg_attr(kani, kani::unwind(6))]
#[cfg_attr(salsa_verif_replay, test)]
fn k_diff_1_stale_structs() {
    let z = zalsa_with_oracles(2, false);
    let me = vk::key(0, 99);
    let untracked: bool = vk::any();
    let old_origin = if untracked {
        OriginAndExtra::derived_untracked([QueryEdge::input(vk::key(0, 1))].into_iter(), Default::default())
    } else {
        OriginAndExtra::derived([QueryEdge::input(vk::key(0, 1))].into_iter(), Default::default())
    };
    let old = header(Revision::start(), Durability::LOW, Revision::start(), true, old_origin);
    let s0 = (identity(1, 7, 0), vk::any_id());
    let s1 = (identity(1, 7, 1), vk::any_id());
    let completed = CompletedQuery { revisions: revs(Durability::LOW, Revision::start(), true, empty_derived()), stale_tracked_structs: vec![s0, s1] };
    old.diff_outputs(&z, me, &completed);
    let log = the_log();
    assert!(log.n == 2);
    let c = log.calls[0].unwrap();
    assert!(c.kind == REMOVED && c.ing == 1 && c.id == s0.1 && c.executor == Some(me));
    let c = log.calls[1].unwrap();
    assert!(c.kind == REMOVED && c.ing == 1 && c.id == s1.1 && c.executor == Some(me));
    vcover!();
    std::mem::forget(old);
    std::mem::forget(completed);
    std::mem::forget(z);
}

/// Old memo with one input edge and one output edge `o`; the new execution writes output `o` again (or not).
fn diff_one_output(rewritten: bool) {
    let z = zalsa_with_oracles(2, false);
    let me = vk::key(0, 99);
    let o = DatabaseKeyIndex::new(crate::zalsa::IngredientIndex::new(1), vk::any_id());
    let untracked: bool = vk::any();
    let old_edges = [QueryEdge::input(vk::key(0, 1)), QueryEdge::output(o)];
    let old_origin = if untracked {
        OriginAndExtra::derived_untracked(old_edges.into_iter(), Default::default())
    } else {
        OriginAndExtra::derived(old_edges.into_iter(), Default::default())
    };
    let old = header(Revision::start(), Durability::LOW, Revision::start(), true, old_origin);
    let new_untracked: bool = vk::any();
    let new_origin = match (rewritten, new_untracked) {
        (true, false) => OriginAndExtra::derived([QueryEdge::output(o)].into_iter(), Default::default()),
        (true, true) => OriginAndExtra::derived_untracked([QueryEdge::output(o)].into_iter(), Default::default()),
        (false, false) => OriginAndExtra::derived([QueryEdge::input(vk::key(0, 2))].into_iter(), Default::default()),
        (false, true) => OriginAndExtra::derived_untracked([QueryEdge::input(vk::key(0, 2))].into_iter(), Default::default()),
    };
    let completed = CompletedQuery { revisions: revs(Durability::LOW, Revision::start(), true, new_origin), stale_tracked_structs: Vec::new() };
    old.diff_outputs(&z, me, &completed);
    let log = the_log();
    if rewritten {
        assert!(log.n == 0);
    } else {
        assert!(log.n == 1);
        let c = log.calls[0].unwrap();
        assert!(c.kind == REMOVED && c.ing == 1 && c.id == o.key_index() && c.executor == Some(me));
    }
    vcover!();
    std::mem::forget(old);
    std::mem::forget(completed);
    std::mem::forget(z);
}

//@ob id=K-DIFF-2a kind=B bound=1-old-output props=C06,C10 timeout=900 fn=MemoHeader::diff_outputs,QueryOriginRef::outputs
//@ pre: the previous execution wrote one output (specified value / created entity) `o`; the new execution - fully tracked or with an untracked read - writes `o` again
//@ post: nothing is discarded: an output that is written again is not stale, whatever the origin kind of the new execution
#[cfg_attr(kani, kani::proof)]
#[cfg_attr(kani, kani::unwind(6))]
#[cfg_attr(salsa_verif_replay, test)]
fn k_diff_2a_rewritten_output_is_kept() {
    diff_one_output(true)
}

//@ob id=K-DIFF-2b kind=B bound=1-old-output props=C06,C10 timeout=900 fn=MemoHeader::diff_outputs,report_stale_output
//@ pre: as K-DIFF-2a, but the new execution does not write `o` any more
//@ post: `o` is handed to remove_stale_output exactly once, with the executing query as executor (a value the creator no longer specifies / an entity it no longer creates is discarded)
#[cfg_attr(kani, kani::proof)]
#[cfg_attr(kani, kani::unwind(6))]
#[cfg_attr(salsa_verif_replay, test)]
fn k_diff_2b_dropped_output_is_discarded() {
    diff_one_output(false)
}
