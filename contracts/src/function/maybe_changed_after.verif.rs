//! Child module of `crate::function::maybe_changed_after`: the red-green validation mechanism.
use super::*;
use crate::function::memo::verif::header;
use crate::verif_support::refs;
use crate::verif_support::{self as vk, vcover};
use crate::zalsa::verif::oracle::*;
use crate::zalsa_local::verif::{empty_derived, extra_with_head};
use crate::zalsa_local::{OriginAndExtra, QueryEdge};
use crate::{Durability, Revision};

/// Bare `Zalsa` whose runtime holds an arbitrary monotone revision vector.
fn zalsa_any_revisions(n_oracles: u32, accumulated: bool) -> (Zalsa, [Revision; 3]) {
    let mut z = zalsa_with_oracles(n_oracles, accumulated);
    let (r0, r1, r2) = (vk::any_revision(), vk::any_revision(), vk::any_revision());
    vk::assume(r0 >= r1 && r1 >= r2);
    crate::runtime::verif::set_revs(z.runtime_mut(), [r0, r1, r2]);
    (z, [r0, r1, r2])
}
fn ref_revs(r: [Revision; 3]) -> refs::Revs {
    refs::Revs { r0: r[0].as_usize(), r1: r[1].as_usize(), r2: r[2].as_usize() }
}

//@ob id=K-MCA-1 kind=C props=C01,C02,C03,C04 fn=MemoHeader::shallow_verify_memo,MemoHeader::shallow_verify_memo_cold,ShallowUpdate::yes
//@ pre: any monotone revision vector; memo with any durability, verified at any revision <= current
//@ post: Verified <=> verified_at == current; else HigherDurability <=> last_changed(memo.durability) <= verified_at, else No (both directions); yes() == refs::ref_shallow; a NEVER_CHANGE memo always verifies; a LOW memo from an earlier revision never does
#[cfg_attr(kani, kani::proof)]
#[cfg_attr(kani, kani::unwind(5))]
#[cfg_attr(salsa_verif_replay, test)]
fn k_mca_1_shallow_verify() {
    let (z, r) = zalsa_any_revisions(0, false);
    let va = vk::any_revision();
    vk::assume(va <= r[0]);
    let d = vk::any_durability();
    let h = header(va, d, Revision::start(), true, empty_derived());
    let s = h.shallow_verify_memo(&z, vk::key(0, 1));
    let last_changed = if d == Durability::NEVER_CHANGE { Revision::start() } else { r[d.index()] };
    if va == r[0] {
        assert!(s == ShallowUpdate::Verified);
    } else if last_changed <= va {
        assert!(s == ShallowUpdate::HigherDurability);
    } else {
        assert!(s == ShallowUpdate::No);
    }
    assert!(s.yes() == refs::ref_shallow(ref_revs(r), va.as_usize(), d.index() as u8));
    if d == Durability::NEVER_CHANGE {
        assert!(s.yes());
    }
    if d == Durability::LOW && va < r[0] {
        assert!(!s.yes());
    }
    // read-only
    assert!(h.verified_at.load() == va);
    vcover!();
    std::mem::forget(h);
    std::mem::forget(z);
}

//@ob id=K-C04-1 kind=C props=C04,C02 fn=MemoHeader::shallow_verify_memo,Runtime::new_revision,Runtime::report_tracked_write
//@ pre: any monotone revision vector; a LOW-durability memo (what an untracked read forces) verified in the current revision; then one new revision followed by an optional write of any writable durability
//@ post: shallow verification says No (the memo must be deep-verified, where the untracked origin reports Changed - K-MCA-4)
#[cfg_attr(kani, kani::proof)]
#[cfg_attr(kani, kani::unwind(5))]
#[cfg_attr(salsa_verif_replay, test)]
fn k_c04_1_low_memo_never_shallow_verifies_later() {
    let (mut z, r) = zalsa_any_revisions(0, false);
    vk::assume(r[0].as_usize() < usize::MAX - 1);
    let h = header(r[0], Durability::LOW, r[0], true, OriginAndExtra::derived_untracked(std::iter::empty(), Default::default()));
    assert!(h.shallow_verify_memo(&z, vk::key(0, 1)) == ShallowUpdate::Verified);
    z.runtime_mut().new_revision();
    if vk::any() {
        z.runtime_mut().report_tracked_write(vk::any_writable_durability());
    }
    assert!(h.shallow_verify_memo(&z, vk::key(0, 1)) == ShallowUpdate::No);
    vcover!();
    std::mem::forget(h);
    std::mem::forget(z);
}

//@ob id=K-MCA-2 kind=C props=C01,C03,C11 fn=MemoHeader::maybe_changed_after_hot,MemoHeader::update_shallow,MemoHeader::mark_as_verified
//@ pre: any monotone revision vector; memo: any durability, verified_at <= current, changed_at <= verified_at, any finality, no outputs; any query revision
//@ post: answers on the hot path <=> shallow verification succeeds && the memo is final; then Unchanged <=> changed_at <= revision (both directions) and verified_at := current; an Unchanged answer carries the memo's stored accumulated-inputs flag **whichever way the shallow check succeeded** (verified this revision, or by durability); otherwise None and the memo is untouched
#[cfg_attr(kani, kani::proof)]
#[cfg_attr(kani, kani::unwind(5))]
#[cfg_attr(salsa_verif_replay, test)]
fn k_mca_2_hot() {
    let (z, r) = zalsa_any_revisions(0, false);
    let va = vk::any_revision();
    vk::assume(va <= r[0]);
    let d = vk::any_durability();
    let changed_at = vk::any_revision();
    vk::assume(changed_at <= va);
    let vf: bool = vk::any();
    let h = header(va, d, changed_at, vf, empty_derived());
    let acc: bool = vk::any();
    h.revisions.accumulated_inputs.store(if acc {
        crate::accumulator::accumulated_map::InputAccumulatedValues::Any
    } else {
        crate::accumulator::accumulated_map::InputAccumulatedValues::Empty
    });
    let rev = vk::any_revision();
    let res = h.maybe_changed_after_hot(&z, vk::key(0, 1), rev);
    let shallow_ok = refs::ref_shallow(ref_revs(r), va.as_usize(), d.index() as u8);
    match res {
        None => {
            assert!(!(shallow_ok && vf));
            assert!(h.verified_at.load() == va);
        }
        Some(v) => {
            assert!(shallow_ok && vf);
            assert!(v.is_unchanged() == (changed_at <= rev));
            assert!(h.verified_at.load() == r[0]);
            if let VerifyResult::Unchanged { accumulated } = v {
                assert!(accumulated.is_any() == acc);
                vcover!(va < r[0] && acc, "flag reported on the higher-durability path");
            }
        }
    }
    assert!(h.revisions.changed_at == changed_at);
    vcover!();
    std::mem::forget(h);
    std::mem::forget(z);
}

//@ob id=K-MCA-2o kind=B bound=1-output-edge props=C01,C06,C10 fn=MemoHeader::update_shallow,MemoHeader::mark_outputs_as_verified
//@ pre: memo with one output edge, shallow-verifiable through durability (verified in an earlier revision, nothing of its durability written since)
//@ post: the hot path revalidates the output exactly once with the memo as executor (so what the green creator specified/created stays alive)
#[cfg_attr(kani, kani::proof)]
#[cfg_attr(kani, kani::unwind(6))]
#[cfg_attr(salsa_verif_replay, test)]
fn k_mca_2o_hot_marks_outputs() {
    let mut z = zalsa_with_oracles(2, false);
    z.runtime_mut().new_revision();
    z.runtime_mut().report_tracked_write(Durability::LOW);
    let me = vk::key(0, 9);
    let out = vk::key(1, 4);
    let origin = OriginAndExtra::derived([QueryEdge::output(out)].into_iter(), Default::default());
    let h = header(Revision::start(), Durability::HIGH, Revision::start(), true, origin);
    let res = h.maybe_changed_after_hot(&z, me, Revision::start());
    assert!(res.is_some() && res.unwrap().is_unchanged());
    let log = the_log();
    assert!(log.n == 1);
    let c = log.calls[0].unwrap();
    assert!(c.kind == VALIDATED && c.ing == 1 && c.id == out.key_index() && c.executor == Some(me));
    vcover!();
    std::mem::forget(h);
    std::mem::forget(z);
}

/// K-MCA-3 body: real `deep_verify_edges` over `N` edges, each symbolically input or output, each
/// dependency answering nondeterministically through the oracle ingredient.
fn deep_verify_edges_n<const N: usize>(accumulated: bool) {
    let z = zalsa_with_oracles(2, accumulated);
    let me = vk::key(0, 99);
    let mut edges = [QueryEdge::input(vk::key(0, 0)); N];
    let mut is_out = [false; N];
    let mut i = 0;
    while i < N {
        let k = vk::key(if vk::any() { 1 } else { 0 }, 10 + i as u32);
        is_out[i] = vk::any();
        edges[i] = if is_out[i] { QueryEdge::output(k) } else { QueryEdge::input(k) };
        i += 1;
    }
    let old_verified_at = vk::any_revision();
    let changed_at = vk::any_revision();
    let h = header(old_verified_at, Durability::LOW, changed_at, true,
                   OriginAndExtra::derived(edges.iter().copied(), Default::default()));
    let res = deep_verify_edges(dangling_db(), &z, &h.revisions, old_verified_at, h.revisions.origin().edges(), me);
    let log = the_log();
    // Walk the log against the recorded order.
    let mut li = 0usize;
    let mut stopped = false;
    let mut any_acc = false;
    let mut i = 0;
    while i < N {
        if !stopped {
            assert!(li < log.n);
            let c = log.calls[li].unwrap();
            let k = edges[i].key();
            assert!(c.ing == k.ingredient_index().as_u32() && c.id == k.key_index());
            if is_out[i] {
                // outputs are validated (never compared), with the verified query as executor
                assert!(c.kind == VALIDATED && c.executor == Some(me));
            } else {
                // inputs are asked about exactly the memo's old verified_at
                assert!(c.kind == MCA && c.rev == old_verified_at.as_usize());
                if c.changed {
                    stopped = true; // evaluation stops at the first changed input
                }
            }
            li += 1;
        }
        i += 1;
    }
    assert!(log.n == li);
    // Unchanged <=> every input edge answered unchanged
    assert!(res.is_unchanged() == !stopped);
    let _ = any_acc;
    vcover!();
    vcover!(res.is_unchanged(), "an all-green walk exists");
    std::mem::forget(h);
    std::mem::forget(z);
}

//@ob id=K-MCA-3-1 kind=B bound=1-edge props=C01,C03,C06,C10 fn=deep_verify_edges,DatabaseKeyIndex::maybe_changed_after,DatabaseKeyIndex::mark_validated_output,Zalsa::lookup_ingredient
//@ pre: 1 edge (symbolically input or output, either of two oracle ingredients), dependency answers nondeterministic, any old verified_at
//@ post: the dependency is consulted exactly once, inputs with exactly old_verified_at, outputs validated with the verified query as executor; Unchanged <=> no input answered Changed
#[cfg_attr(kani, kani::proof)]
#[cfg_attr(kani, kani::unwind(6))]
#[cfg_attr(salsa_verif_replay, test)]
fn k_mca_3_edges_1() {
    deep_verify_edges_n::<1>(false);
}

//@ob id=K-MCA-3-2 kind=B bound=2-edges props=C01,C03,C06,C10 timeout=600 fn=deep_verify_edges
//@ pre: 2 edges, each symbolically input/output, dependencies nondeterministic
//@ post: dependencies are consulted in recorded order; evaluation stops at the first Changed input (later edges are not touched); Unchanged <=> every input edge answered Unchanged for exactly old_verified_at
#[cfg_attr(kani, kani::proof)]
#[cfg_attr(kani, kani::unwind(7))]
#[cfg_attr(salsa_verif_replay, test)]
fn k_mca_3_edges_2() {
    deep_verify_edges_n::<2>(false);
}

//@ob id=K-MCA-3-3 kind=B bound=3-edges tier=thorough timeout=2400 props=C01,C03,C06,C10 fn=deep_verify_edges
//@ pre: 3 edges, each symbolically input/output, dependencies nondeterministic
//@ post: as K-MCA-3-2
#[cfg_attr(kani, kani::proof)]
#[cfg_attr(kani, kani::unwind(8))]
#[cfg_attr(salsa_verif_replay, test)]
fn k_mca_3_edges_3() {
    deep_verify_edges_n::<3>(false);
}

//@ob id=K-MCA-3a kind=B bound=2-input-edges props=C11 timeout=600 fn=deep_verify_edges,InputAccumulatedValues::bitor_assign,AtomicInputAccumulatedValues::store
//@ pre: 2 input edges whose dependencies answer Unchanged with a nondeterministic accumulated-values flag (or Changed)
//@ post: on Unchanged the reported flag is the OR of the inputs' flags and is stored in the memo's accumulated_inputs
#[cfg_attr(kani, kani::proof)]
#[cfg_attr(kani, kani::unwind(7))]
#[cfg_attr(salsa_verif_replay, test)]
fn k_mca_3a_accumulated_flag() {
    let z = zalsa_with_oracles(1, true);
    let me = vk::key(0, 99);
    let edges = [QueryEdge::input(vk::key(0, 10)), QueryEdge::input(vk::key(0, 11))];
    let va = vk::any_revision();
    let h = header(va, Durability::LOW, Revision::start(), true, OriginAndExtra::derived(edges.iter().copied(), Default::default()));
    let res = deep_verify_edges(dangling_db(), &z, &h.revisions, va, h.revisions.origin().edges(), me);
    match res {
        VerifyResult::Changed => {}
        VerifyResult::Unchanged { accumulated } => {
            // the oracle drew: changed0, acc0, changed1, acc1 — recompute from the memo store
            assert!(h.revisions.accumulated_inputs.load().is_any() == accumulated.is_any());
            vcover!(accumulated.is_any(), "Any is reachable");
            vcover!(!accumulated.is_any(), "Empty is reachable");
        }
    }
    vcover!();
    std::mem::forget(h);
    std::mem::forget(z);
}

fn any_strategy() -> CycleRecoveryStrategy {
    let s: u8 = vk::any();
    vk::assume(s < 3);
    match s {
        0 => CycleRecoveryStrategy::Panic,
        1 => CycleRecoveryStrategy::Fixpoint,
        _ => CycleRecoveryStrategy::FallbackImmediate,
    }
}

//@ob id=K-MCA-4 kind=C props=C01,C03,C04,C10 fn=MemoHeader::deep_verify_memo
//@ pre: a stale memo of each origin kind: derived-untracked, assigned, derived (one input edge through the oracle); verified at an earlier revision, changed at or before that (the two differ in general); any finality; any cycle strategy
//@ post: untracked => Changed without consulting anything; assigned => Changed without consulting anything; derived+provisional => Changed; derived+final => the input is consulted once with verified_at, Unchanged <=> it answered unchanged, and then verified_at := current
#[cfg_attr(kani, kani::proof)]
#[cfg_attr(kani, kani::unwind(6))]
#[cfg_attr(salsa_verif_replay, test)]
fn k_mca_4_deep_verify_arms() {
    let mut z = zalsa_with_oracles(1, false);
    z.runtime_mut().new_revision();
    z.runtime_mut().new_revision();
    // the memo was verified in revision 1 or 2 (current is 3) and last changed at or before that:
    // the two stamps are different revisions in general, and it is `verified_at` the inputs are asked about
    let va = if vk::any() { Revision::start() } else { Revision::start().next() };
    let ca = if vk::any() { Revision::start() } else { va };
    let local = crate::zalsa_local::verif::local_static();
    let me = vk::key(0, 5);
    let guard = crate::function::sync::verif::fake_guard(&z, &local, me.ingredient_index(), me.key_index());
    let which: u8 = vk::any();
    vk::assume(which < 3);
    let vf: bool = vk::any();
    let origin = match which {
        0 => OriginAndExtra::derived_untracked([QueryEdge::input(vk::key(0, 1))].into_iter(), Default::default()),
        1 => OriginAndExtra::assigned(vk::key(0, 2)),
        _ => OriginAndExtra::derived([QueryEdge::input(vk::key(0, 1))].into_iter(), Default::default()),
    };
    let h = header(va, Durability::LOW, ca, vf, origin);
    let r = h.deep_verify_memo(dangling_db(), &guard, any_strategy());
    let log = the_log();
    if which < 2 || !vf {
        assert!(!r.is_unchanged());
        assert!(log.n == 0);
        assert!(h.verified_at.load() == va);
    } else {
        assert!(log.n == 1);
        let c = log.calls[0].unwrap();
        assert!(c.kind == MCA && c.rev == va.as_usize() && c.id == vk::key(0, 1).key_index());
        assert!(r.is_unchanged() == !c.changed);
        if r.is_unchanged() {
            assert!(h.verified_at.load() == z.current_revision());
        } else {
            assert!(h.verified_at.load() == va);
        }
    }
    vcover!(va != ca, "verified_at and changed_at differ");
    vcover!();
    std::mem::forget(guard);
    std::mem::forget(h);
    std::mem::forget(z);
    std::mem::forget(local);
}

//@ob id=K-MCA-4c kind=C props=C14 fn=MemoHeader::deep_verify_memo,MemoHeader::was_cycle_participant
//@ pre: a final derived memo that was a cycle participant (one stored cycle head), one input edge; any strategy
//@ post: for a query without cycle handling (Panic strategy) the memo is always Changed and no dependency is consulted; with cycle handling the flattened dependencies are verified normally
#[cfg_attr(kani, kani::proof)]
#[cfg_attr(kani, kani::unwind(6))]
#[cfg_attr(salsa_verif_replay, test)]
fn k_mca_4c_cycle_participant() {
    let mut z = zalsa_with_oracles(1, false);
    z.runtime_mut().new_revision();
    let local = crate::zalsa_local::verif::local_static();
    let me = vk::key(0, 5);
    let guard = crate::function::sync::verif::fake_guard(&z, &local, me.ingredient_index(), me.key_index());
    let stamp = crate::cycle::IterationStamp::initial(0);
    let origin = OriginAndExtra::derived([QueryEdge::input(vk::key(0, 1))].into_iter(), extra_with_head(vk::key(0, 7), stamp));
    let h = header(Revision::start(), Durability::LOW, Revision::start(), true, origin);
    let strat = any_strategy();
    let r = h.deep_verify_memo(dangling_db(), &guard, strat);
    let log = the_log();
    if strat == CycleRecoveryStrategy::Panic {
        assert!(!r.is_unchanged() && log.n == 0);
    } else {
        assert!(log.n == 1);
        assert!(r.is_unchanged() == !log.calls[0].unwrap().changed);
    }
    vcover!();
    std::mem::forget(guard);
    std::mem::forget(h);
    std::mem::forget(z);
    std::mem::forget(local);
}

//@ob id=K-MCA-5 kind=C props=C20 fn=MemoHeader::validate_may_be_provisional
//@ pre: a provisional memo (one cycle head) verified in the current revision whose iteration stamp carries cancellation count c_memo; runtime cancellation count c_now in {0, 1}; c_memo != c_now
//@ post: rejected (false) before any cycle head is consulted - a memo from an abandoned (cancelled) execution epoch is never reused
#[cfg_attr(kani, kani::proof)]
#[cfg_attr(kani, kani::unwind(5))]
#[cfg_attr(salsa_verif_replay, test)]
fn k_mca_5_epoch() {
    use crate::cycle::IterationStamp;
    let mut z = zalsa_with_oracles(1, false);
    let bump: bool = vk::any();
    if bump {
        let _ = z.runtime_mut().bump_cancellation_count();
    }
    let cc_now = z.runtime().cancellation_count();
    assert!(cc_now == bump as u8);
    let local = crate::zalsa_local::verif::local_static();
    let cc_memo: u8 = vk::any();
    let stamp = IterationStamp::initial(cc_memo);
    let h = header(z.current_revision(), Durability::LOW, Revision::start(), false,
                   OriginAndExtra::derived(std::iter::empty(), extra_with_head(vk::key(0, 2), stamp)));
    vk::assume(cc_memo != cc_now);
    let ok = h.validate_may_be_provisional(&z, &local, vk::key(0, 1));
    assert!(!ok);
    assert!(the_log().n == 0);
    vcover!();
    std::mem::forget(h);
    std::mem::forget(z);
    std::mem::forget(local);
}

//@ob id=K-MCA-5f kind=C props=C01,C03 fn=MemoHeader::validate_may_be_provisional
//@ pre: a final memo (verified_final set), or a provisional flag with no stored cycle heads
//@ post: accepted (true) without consulting anything
#[cfg_attr(kani, kani::proof)]
#[cfg_attr(kani, kani::unwind(5))]
#[cfg_attr(salsa_verif_replay, test)]
fn k_mca_5f_final_memos_pass() {
    let z = zalsa_with_oracles(1, false);
    let local = crate::zalsa_local::verif::local_static();
    let vf: bool = vk::any();
    let h = header(z.current_revision(), vk::any_durability(), Revision::start(), vf, empty_derived());
    assert!(h.validate_may_be_provisional(&z, &local, vk::key(0, 1)));
    assert!(the_log().n == 0);
    vcover!();
    std::mem::forget(h);
    std::mem::forget(z);
    std::mem::forget(local);
}

//@ob id=K-MCA-6 kind=C props=C14 fn=maybe_changed_after_cold_cycle
//@ pre: strategy Fixpoint or FallbackImmediate
//@ post: a cycle hit while validating reports Changed (so the cycle is re-entered through fetch, never silently reused)
#[cfg_attr(kani, kani::proof)]
#[cfg_attr(kani, kani::unwind(4))]
#[cfg_attr(salsa_verif_replay, test)]
fn k_mca_6_cold_cycle_changed() {
    let local = crate::zalsa_local::verif::local_static();
    let fix: bool = vk::any();
    let r = maybe_changed_after_cold_cycle(&local, vk::key(0, 1),
        if fix { CycleRecoveryStrategy::Fixpoint } else { CycleRecoveryStrategy::FallbackImmediate });
    assert!(!r.is_unchanged());
    vcover!();
    std::mem::forget(local);
}

//@ob id=K-MCA-7 kind=C props=C11,C01 fn=VerifyResult::unchanged_for_memo,VerifyResult::changed_if,VerifyResult::changed,VerifyResult::unchanged,VerifyResult::is_unchanged
//@ pre: memo revisions with stored accumulated_inputs flag in {Empty, Any}, with or without own accumulated-values storage
//@ post: changed_if(b).is_unchanged() == !b; unchanged_for_memo reports Any if the memo has own values, else exactly the stored input flag
#[cfg_attr(kani, kani::proof)]
#[cfg_attr(kani, kani::unwind(5))]
#[cfg_attr(salsa_verif_replay, test)]
fn k_mca_7_verify_result() {
    use crate::accumulator::accumulated_map::InputAccumulatedValues;
    let b: bool = vk::any();
    assert!(VerifyResult::changed_if(b).is_unchanged() == !b);
    assert!(!VerifyResult::changed().is_unchanged() && VerifyResult::unchanged().is_unchanged());
    let stored_any: bool = vk::any();
    let h = header(Revision::start(), Durability::LOW, Revision::start(), true, empty_derived());
    h.revisions.accumulated_inputs.store(if stored_any { InputAccumulatedValues::Any } else { InputAccumulatedValues::Empty });
    match VerifyResult::unchanged_for_memo(&h.revisions) {
        VerifyResult::Unchanged { accumulated } => assert!(accumulated.is_any() == stored_any),
        VerifyResult::Changed => panic!("unchanged_for_memo returned Changed"),
    }
    vcover!();
    std::mem::forget(h);
}

//@ob id=K-MCA-8 kind=C props=C20 fn=validate_provisional
//@ pre: a provisional memo verified at any revision with one cycle head (recorded at any iteration stamp); the head's function ingredient (oracle) reports it Final at any iteration stamp and any verified_at, or Poisoned
//@ post: the memo is accepted as final only if the head is Final, was finalised **in the same revision as the memo was verified** and in the same iteration the memo saw; only then verified_final is set - a provisional result left behind by an abandoned (cancelled) execution of an older revision is never promoted because its head was re-finalised later
#[cfg_attr(kani, kani::proof)]
#[cfg_attr(kani, kani::unwind(4))]
#[cfg_attr(salsa_verif_replay, test)]
fn k_mca_8_validate_provisional() {
    let z = zalsa_with_fn_oracle();
    let me = vk::key(3, 5);
    let head = vk::key(0, 1);
    let seen = crate::cycle::IterationStamp::initial(vk::any());
    let mva = vk::any_revision();
    let h = header(mva, Durability::LOW, Revision::start(), false, OriginAndExtra::derived(std::iter::empty(), extra_with_head(head, seen)));
    let fin: bool = vk::any();
    let it = crate::cycle::IterationStamp::initial(vk::any());
    let hva = vk::any_revision();
    // SAFETY: single-threaded harness
    unsafe { HEAD_STATUS = (fin, it, hva.as_usize()) };
    let ok = validate_provisional(&z, me, &h.revisions, mva, h.revisions.cycle_heads());
    // soundness direction only: rejecting more often is allowed
    assert!(!ok || (fin && hva == mva && it == seen));
    assert!(h.may_be_provisional() == !ok);
    vcover!(ok, "accepted case reachable");
    vcover!(fin && hva > mva && it == seen, "head re-finalised in a newer revision");
    vcover!();
    std::mem::forget(h);
    std::mem::forget(z);
}
