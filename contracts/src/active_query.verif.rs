//! Child module of `crate::active_query`: what a running query records about its reads.
use super::*;
use crate::verif_support::{self as vk, vcover};
use crate::zalsa_local::QueryOriginRef;

/// A fresh frame whose scalar state (min durability, max changed_at) is arbitrary.
fn any_frame() -> (ActiveQuery, Durability, Revision) {
    let mut q = ActiveQuery::new(vk::key(0, 9));
    let d0 = vk::any_durability();
    let r0 = vk::any_revision();
    q.durability = d0;
    q.changed_at = r0;
    (q, d0, r0)
}

//@ob id=K-AQ-0 kind=C props=C01,C02 fn=ActiveQuery::new,ActiveQuery::stamp
//@ pre: any key
//@ post: a new frame starts at (durability MAX = NEVER_CHANGE, changed_at = start, no edges, tracked, no cycle heads)
#[cfg_attr(kani, kani::proof)]
#[cfg_attr(kani, kani::unwind(4))]
#[cfg_attr(salsa_verif_replay, test)]
fn k_aq_0_new_frame() {
    let q = ActiveQuery::new(vk::any_key());
    assert!(q.stamp().durability == Durability::NEVER_CHANGE && q.stamp().changed_at == Revision::start());
    assert!(q.input_outputs.is_empty() && !q.untracked_read && q.cycle_heads.is_empty());
    assert!(!q.accumulated_inputs.is_any());
    vcover!();
    std::mem::forget(q);
}

//@ob id=K-AQ-1 kind=B bound=one-IndexSet-insert props=C01,C02,C03 timeout=600 fn=ActiveQuery::add_read_simple,ActiveQuery::add_changed_at
//@ pre: frame with any (durability, changed_at); a read of any key with any durability and revision
//@ post: durability' == min; changed_at' == max (exactly); untracked flag untouched; a read that can change (durability != NEVER_CHANGE) is recorded as exactly one input edge for that key
#[cfg_attr(kani, kani::proof)]
#[cfg_attr(kani, kani::unwind(6))]
#[cfg_attr(salsa_verif_replay, test)]
fn k_aq_1_add_read_simple() {
    let (mut q, d0, r0) = any_frame();
    let (d, r, k) = (vk::any_durability(), vk::any_revision(), vk::any_key());
    q.add_read_simple(k, d, r);
    assert!(q.durability == std::cmp::min(d0, d));
    assert!(q.changed_at == std::cmp::max(r0, r));
    assert!(!q.untracked_read);
    if d != Durability::NEVER_CHANGE {
        assert!(q.input_outputs.len() == 1 && q.input_outputs.get_index(0) == Some(&QueryEdge::input(k)));
    }
    // nothing but that input is ever recorded
    assert!(q.input_outputs.len() <= 1);
    vcover!();
    std::mem::forget(q);
}

//@ob id=K-AQ-2 kind=B bound=one-IndexSet-insert props=C01,C02,C03,C11 timeout=600 fn=ActiveQuery::add_read
//@ pre: frame with any (durability, changed_at); a read with any durability/revision, no cycle heads, any (has_accumulated, inputs-accumulated) flags
//@ post: durability' == min; changed_at' == max; accumulated_inputs' == old | (has_accumulated | inputs flag); the edge is recorded whenever the read can change OR carries accumulated values (even when NEVER_CHANGE)
#[cfg_attr(kani, kani::proof)]
#[cfg_attr(kani, kani::unwind(6))]
#[cfg_attr(salsa_verif_replay, test)]
fn k_aq_2_add_read() {
    let (mut q, d0, r0) = any_frame();
    let d = vk::any_durability();
    let r = vk::any_revision();
    let has_acc: bool = vk::any();
    let inputs_acc: bool = vk::any();
    let flag = AtomicInputAccumulatedValues::new(if inputs_acc { InputAccumulatedValues::Any } else { InputAccumulatedValues::Empty });
    let k = vk::key(1, 1);
    q.add_read(k, d, r, crate::cycle::empty_cycle_heads(), has_acc, &flag);
    assert!(q.durability == std::cmp::min(d0, d));
    assert!(q.changed_at == std::cmp::max(r0, r));
    assert!(q.accumulated_inputs.is_any() == (has_acc || inputs_acc));
    if d != Durability::NEVER_CHANGE || has_acc || inputs_acc {
        assert!(q.input_outputs.len() == 1 && q.input_outputs.get_index(0) == Some(&QueryEdge::input(k)));
    }
    assert!(q.cycle_heads.is_empty() && !q.untracked_read);
    vcover!();
    std::mem::forget(q);
}

//@ob id=K-AQ-3 kind=C props=C04,C01 fn=ActiveQuery::add_untracked_read
//@ pre: frame with any (durability, changed_at); any revision passed
//@ post: untracked flag set; durability := MIN (LOW); changed_at := the revision passed
#[cfg_attr(kani, kani::proof)]
#[cfg_attr(kani, kani::unwind(4))]
#[cfg_attr(salsa_verif_replay, test)]
fn k_aq_3_add_untracked_read() {
    let (mut q, _d0, _r0) = any_frame();
    let r = vk::any_revision();
    q.add_untracked_read(r);
    assert!(q.untracked_read && q.durability == Durability::LOW && q.changed_at == r);
    vcover!();
    std::mem::forget(q);
}

//@ob id=K-AQ-4 kind=B bound=two-IndexSet-inserts-same-key props=C10,C06 timeout=900 fn=ActiveQuery::add_output
//@ pre: empty frame; the same (concrete) key is added as output twice
//@ post: first call reports newly-inserted (true), second reports duplicate (false); exactly one output edge is recorded
#[cfg_attr(kani, kani::proof)]
#[cfg_attr(kani, kani::unwind(6))]
#[cfg_attr(salsa_verif_replay, test)]
fn k_aq_4_add_output_twice() {
    let mut q = ActiveQuery::new(vk::key(0, 9));
    let k = vk::key(1, 3);
    assert!(q.add_output(k));
    assert!(!q.add_output(k));
    assert!(q.input_outputs.len() == 1 && q.input_outputs.get_index(0) == Some(&QueryEdge::output(k)));
    vcover!();
    std::mem::forget(q);
}

//@ob id=K-AQ-5 kind=C props=C04 fn=ActiveQuery::seed_iteration
//@ pre: empty frame with any scalar state; previous iteration state: any durability/changed_at/untracked flag, no edges, no tracked structs
//@ post: durability' == min, changed_at' == max, untracked' == old | previous (an untracked read in an earlier iteration is never forgotten)
#[cfg_attr(kani, kani::proof)]
#[cfg_attr(kani, kani::unwind(4))]
#[cfg_attr(salsa_verif_replay, test)]
fn k_aq_5_seed_iteration() {
    let (mut q, d0, r0) = any_frame();
    let u0: bool = vk::any();
    q.untracked_read = u0;
    let (d, r, u) = (vk::any_durability(), vk::any_revision(), vk::any::<bool>());
    let prev = crate::zalsa_local::verif::empty_derived();
    q.seed_iteration(d, r, prev.verif_edges(), u, &[]);
    assert!(q.durability == std::cmp::min(d0, d));
    assert!(q.changed_at == std::cmp::max(r0, r));
    assert!(q.untracked_read == (u0 || u));
    assert!(q.input_outputs.is_empty());
    vcover!();
    std::mem::forget(q);
    std::mem::forget(prev);
}

//@ob id=K-AQ-6 kind=B bound=1-edge props=C01,C04,C25 timeout=600 fn=QueryCompletion::finish
//@ pre: completion with any durability, changed_at, untracked flag, finality flag; one input edge
//@ post: origin kind is DerivedUntracked <=> untracked flag; durability/changed_at/verified_final copied exactly; the edge is stored; no stale structs invented
#[cfg_attr(kani, kani::proof)]
#[cfg_attr(kani, kani::unwind(4))]
#[cfg_attr(salsa_verif_replay, test)]
fn k_aq_6_finish() {
    let d = vk::any_durability();
    let r = vk::any_revision();
    let untracked: bool = vk::any();
    let vf: bool = vk::any();
    let qc = QueryCompletion {
        changed_at: r,
        durability: d,
        untracked_read: untracked,
        extra: Default::default(),
        accumulated_inputs: Default::default(),
        verified_final: vf,
        stale_tracked_structs: Vec::new(),
    };
    let e = QueryEdge::input(vk::key(1, 1));
    let c = qc.finish([e].into_iter());
    let q = &c.revisions;
    assert!(q.durability == d && q.changed_at == r);
    assert!(q.is_derived_untracked() == untracked);
    match q.origin() {
        QueryOriginRef::Derived(_) => assert!(!untracked),
        QueryOriginRef::DerivedUntracked(_) => assert!(untracked),
        _ => unreachable!(),
    }
    let mut it = q.origin().edges().iter();
    assert!(it.next() == Some(e));
    assert!(it.next().is_none());
    assert!(q.verified_final.load(std::sync::atomic::Ordering::Relaxed) == vf);
    assert!(c.stale_tracked_structs.is_empty());
    vcover!();
    std::mem::forget(c);
}

//@ob id=K-STACK-1 kind=B bound=stack-depth-1 props=C14,C01 timeout=900 fn=QueryStack::push_new_query,QueryStack::pop,ActiveQuery::reset_for,ActiveQuery::clear
//@ pre: empty stack; push a frame, record an untracked read (any revision) and a LOW read, pop it, push again with another key
//@ post: length returns to 0 after pop; the re-used frame starts clean: (NEVER_CHANGE, start, tracked, no edges) for the new key
#[cfg_attr(kani, kani::proof)]
#[cfg_attr(kani, kani::unwind(6))]
#[cfg_attr(salsa_verif_replay, test)]
fn k_stack_1_frame_reuse() {
    let mut st = QueryStack::default();
    let k1 = vk::key(0, 9);
    let k2 = vk::key(0, 10);
    st.push_new_query(k1);
    assert!(st.len == 1 && st[0].database_key_index == k1);
    st[0].add_untracked_read(vk::any_revision());
    st[0].add_read_simple(vk::key(1, 1), Durability::LOW, vk::any_revision());
    st.pop(k1, 1);
    assert!(st.len == 0);
    st.push_new_query(k2);
    assert!(st.len == 1);
    let f = &st[0];
    assert!(f.database_key_index == k2);
    assert!(f.durability == Durability::NEVER_CHANGE && f.changed_at == Revision::start());
    assert!(!f.untracked_read && f.input_outputs.is_empty() && f.cycle_heads.is_empty());
    assert!(!f.accumulated_inputs.is_any());
    vcover!();
    std::mem::forget(st);
}

/// Does this frame list `key` as an output edge?
pub(crate) fn has_output(q: &ActiveQuery, key: DatabaseKeyIndex) -> bool {
    q.input_outputs.contains(&crate::zalsa_local::QueryEdge::output(key))
}
pub(crate) fn set_stamp(q: &mut ActiveQuery, d: Durability, r: Revision) {
    q.durability = d;
    q.changed_at = r;
}

//@ob id=K-AQ-7 kind=C props=C14,C01 timeout=900 fn=ActiveQuery::clear,ActiveQuery::reset_for
//@ pre: a stack frame that was used by an execution which is being abandoned (popped while unwinding): it has read a provisional fixpoint value (one cycle head), recorded an input edge, created a tracked-struct identity and lowered its stamp
//@ post: after `clear` + `reset_for(next query)` the frame carries **nothing** of the abandoned execution: no edges, no cycle heads, no identities, no disambiguators, stamp (MAX durability, R1), tracked - so the next query that reuses the frame (any query, also an unrelated one) starts clean
#[cfg_attr(kani, kani::proof)]
#[cfg_attr(kani, kani::unwind(5))]
#[cfg_attr(salsa_verif_replay, test)]
fn k_aq_7_abandoned_frame_is_clean() {
    let mut q = ActiveQuery::new(vk::key(0, 9));
    let head = vk::key(2, 4);
    let stamp = crate::cycle::IterationStamp::initial(vk::any());
    q.add_read_simple(vk::key(1, 3), vk::any_writable_durability(), vk::any_revision());
    q.cycle_heads = crate::cycle::CycleHeads::initial(head, stamp);
    q.tracked_struct_ids.insert(crate::tracked_struct::verif::identity(9, 77, 0), vk::any_id());
    if vk::any() {
        q.add_untracked_read(vk::any_revision());
    }
    assert!(!q.cycle_heads.is_empty() && !q.input_outputs.is_empty());
    q.clear();
    let next = vk::key(5, 6);
    q.reset_for(next);
    assert!(q.database_key_index == next);
    assert!(q.input_outputs.is_empty());
    assert!(q.cycle_heads.is_empty());
    assert!(q.tracked_struct_ids.verif_is_empty());
    assert!(q.disambiguator_map.verif_is_empty());
    assert!(q.durability == Durability::MAX && q.changed_at == Revision::start() && !q.untracked_read);
    vcover!();
    std::mem::forget(q);
}
pub(crate) fn is_untracked(q: &ActiveQuery) -> bool {
    q.untracked_read
}

/// Backing store for a query stack **on the harness's stack**: the `Vec<ActiveQuery>` of a `QueryStack` normally
/// lives on the heap, which CBMC treats as untyped bytes - every length / pointer read back from a frame then stays
/// symbolic (DESIGN 14.1).  Capacity 4 frames; a fifth push would reallocate a non-heap pointer and fail the harness.
pub(crate) type StackCell = [std::mem::MaybeUninit<ActiveQuery>; 4];
pub(crate) fn stack_cell() -> StackCell {
    [const { std::mem::MaybeUninit::uninit() }; 4]
}
pub(crate) fn query_stack_on(cell: &mut StackCell) -> QueryStack {
    QueryStack {
        // SAFETY: properly aligned storage for 4 frames, length 0; never freed (the local state is forgotten)
        stack: unsafe { Vec::from_raw_parts(cell.as_mut_ptr() as *mut ActiveQuery, 0, 4) },
        len: 0,
    }
}
