//! Child module of `crate::attach`: the outermost attach scope is where a handle's cancellation token is reset.
use super::*;
use crate::function::verif::HDb;
use crate::verif_support::{self as vk, vcover};
use crate::zalsa::ZalsaDatabase;
use crate::zalsa_local::ZalsaLocal;

//@ob id=K-ATT-1 kind=C props=C21 timeout=900 fn=attach,Attached::attach,ZalsaLocal::uncancel,CancellationToken::cancel,CancellationToken::reset
//@ pre: a handle whose token is cancelled (or not) **before** its outermost tracked call begins, with cancellation disabled or not; the call nests a second attach scope for the same database
//@ post: entering a scope does not wipe a pending cancellation request (it is still observed inside, so the computation unwinds at its next request); leaving an inner scope does not reset the token; leaving the **outermost** scope resets it (cancelled and disabled bits clear), so the next computation runs normally
#[cfg_attr(kani, kani::proof)]
#[cfg_attr(kani, kani::unwind(4))]
#[cfg_attr(salsa_verif_replay, test)]
fn k_att_1_token_reset_at_outermost_scope_exit() {
    let db = HDb { zalsa: crate::zalsa::verif::bare_zalsa(), local: crate::zalsa_local::verif::local_static() };
    let tok = db.zalsa_local().cancellation_token();
    let cancel_before: bool = vk::any();
    if cancel_before {
        tok.cancel();
    }
    let seen_inside = attach(&db, || {
        let outer = tok.is_cancelled();
        let inner = attach(&db, || tok.is_cancelled());
        // leaving the inner scope must not reset anything
        let after_inner = tok.is_cancelled();
        (outer, inner, after_inner)
    });
    assert!(seen_inside == (cancel_before, cancel_before, cancel_before));
    assert!(!tok.is_cancelled());
    assert!(!db.zalsa_local().should_trigger_local_cancellation());
    // a cancellation that arrives while the handle is idle is kept for its next computation
    tok.cancel();
    let seen = attach(&db, || db.zalsa_local().should_trigger_local_cancellation());
    assert!(seen);
    assert!(!tok.is_cancelled());
    vcover!();
    std::mem::forget(db);
}
