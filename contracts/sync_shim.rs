//! P2: `crate::sync::shim` under `cfg(kani)` — a sequential stand-in next to the parking_lot and
//! shuttle shims of `/repo/src/sync.rs`.  Kani is single threaded; parking_lot's lock slow path and
//! `std::thread::current()` make kani-compiler 0.68 abort.  Lock *semantics*, thread identity and
//! `panicking()` are therefore NOT verified (a harness that would block panics instead).
pub use std::sync::*;
pub use std::thread_local;

/// The current thread has a constant identity; `panicking()` is a harness-controlled flag.
pub mod thread {
    pub use std::thread::ThreadId;
    pub struct Current;
    impl Current {
        pub fn id(&self) -> ThreadId {
            // SAFETY: `ThreadId` is a transparent wrapper around `NonZero<u64>`.
            unsafe { std::mem::transmute::<u64, ThreadId>(1) }
        }
    }
    pub fn current() -> Current {
        Current
    }
    pub static mut PANICKING: bool = false;
    pub fn panicking() -> bool {
        // SAFETY: single-threaded harness
        unsafe { PANICKING }
    }
}

pub mod atomic {
    pub use portable_atomic::AtomicU64;
    pub use std::sync::atomic::*;
}

#[derive(Default, Debug)]
pub struct Mutex<T>(std::cell::RefCell<T>);
// SAFETY: Kani harnesses are single threaded.
unsafe impl<T: Send> Sync for Mutex<T> {}
pub type MutexGuard<'a, T> = std::cell::RefMut<'a, T>;
impl<T> Mutex<T> {
    pub const fn new(value: T) -> Mutex<T> {
        Mutex(std::cell::RefCell::new(value))
    }
    pub fn lock(&self) -> MutexGuard<'_, T> {
        self.0.borrow_mut()
    }
    pub fn get_mut(&mut self) -> &mut T {
        self.0.get_mut()
    }
}

/// Sequential `OnceLock` (same shape as the shuttle polyfill).
pub struct OnceLock<T>(std::cell::UnsafeCell<Option<T>>);
// SAFETY: Kani harnesses are single threaded.
unsafe impl<T: Send> Sync for OnceLock<T> {}
impl<T> Default for OnceLock<T> {
    fn default() -> Self {
        OnceLock::new()
    }
}
impl<T> OnceLock<T> {
    pub const fn new() -> OnceLock<T> {
        OnceLock(std::cell::UnsafeCell::new(None))
    }
    pub fn get(&self) -> Option<&T> {
        // SAFETY: single threaded; the value is write-once.
        unsafe { (*self.0.get()).as_ref() }
    }
    pub fn get_or_init<F: FnOnce() -> T>(&self, f: F) -> &T {
        if self.get().is_none() {
            // SAFETY: single threaded; no reference to the empty slot exists.
            unsafe { *self.0.get() = Some(f()) };
        }
        self.get().unwrap()
    }
}
impl<T> From<T> for OnceLock<T> {
    fn from(value: T) -> OnceLock<T> {
        OnceLock(std::cell::UnsafeCell::new(Some(value)))
    }
}

#[derive(Default, Debug)]
pub struct Condvar;
impl Condvar {
    pub fn wait<'a, T>(&self, _guard: MutexGuard<'a, T>) -> MutexGuard<'a, T> {
        panic!("kani: condvar wait in sequential harness")
    }
    pub fn notify_one(&self) {}
    pub fn notify_all(&self) {}
}
