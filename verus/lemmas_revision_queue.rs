// L-REVQ: what the per-call contract of `RevisionQueue::record` / `is_stale` / `is_primed` (K-INT-1a/b/c, discharged
// by Kani on the real functions for capacities 1, 2, 3 with fully symbolic revisions) means over **whole
// histories** of interning, for any capacity: the queue always holds the most recent `cap` distinct active
// revisions, so "stale" is exactly "last interned before the cap-th most recent revision in which the interned
// type was used", and nothing is stale before `cap` such revisions have occurred.
use vstd::prelude::*;
verus! {

/// The contract of `record` (K-INT-1): a revision not newer than the head is a no-op, a newer one shifts the
/// window by one.  Queue entries are revisions as naturals, newest first; unrecorded entries are 1 (`Revision::start`).
pub open spec fn record(q: Seq<nat>, r: nat) -> Seq<nat> {
    if q.len() == 0 || q[0] >= r { q } else { seq![r] + q.drop_last() }
}
/// The contract of `is_stale` (K-INT-1).
pub open spec fn is_stale(q: Seq<nat>, x: nat) -> bool {
    q.len() > 0 && q.last() > 1 && x < q.last()
}
/// The contract of `is_primed` (K-INT-1).
pub open spec fn is_primed(q: Seq<nat>) -> bool { q.len() > 0 && q.last() > 1 }

/// `RevisionQueue::new(cap)` followed by the history `h` of recorded revisions (the current revision at each
/// interning; it never decreases).
pub open spec fn run(cap: nat, h: Seq<nat>) -> Seq<nat>
    decreases h.len()
{
    if h.len() == 0 { Seq::new(cap, |i: int| 1nat) } else { record(run(cap, h.drop_last()), h.last()) }
}
pub open spec fn nondecreasing(h: Seq<nat>) -> bool {
    forall|i: int, j: int| #![auto] 0 <= i <= j < h.len() ==> h[i] <= h[j]
}
pub open spec fn all_ge1(h: Seq<nat>) -> bool { forall|i: int| #![auto] 0 <= i < h.len() ==> h[i] >= 1 }

/// The distinct active revisions (> start) of a non-decreasing history, newest first.
pub open spec fn distinct_desc(h: Seq<nat>) -> Seq<nat>
    decreases h.len()
{
    if h.len() == 0 { Seq::<nat>::empty() } else {
        let d = distinct_desc(h.drop_last());
        let r = h.last();
        if r <= 1 || (d.len() > 0 && d[0] >= r) { d } else { seq![r] + d }
    }
}

proof fn lemma_prefix(h: Seq<nat>)
    requires nondecreasing(h), all_ge1(h), h.len() > 0,
    ensures nondecreasing(h.drop_last()), all_ge1(h.drop_last()),
{
    let p = h.drop_last();
    assert forall|i: int, j: int| #![auto] 0 <= i <= j < p.len() implies p[i] <= p[j] by { assert(p[i] == h[i] && p[j] == h[j]); }
    assert forall|i: int| #![auto] 0 <= i < p.len() implies p[i] >= 1 by { assert(p[i] == h[i]); }
}

/// Newest-first, strictly decreasing, all > 1, and the head is the maximum of the history (if > 1).
proof fn lemma_distinct_shape(h: Seq<nat>)
    requires nondecreasing(h), all_ge1(h),
    ensures ({
        let d = distinct_desc(h);
        &&& forall|i: int| #![auto] 0 <= i < d.len() ==> d[i] > 1
        &&& forall|i: int, j: int| #![auto] 0 <= i < j < d.len() ==> d[i] > d[j]
        &&& (h.len() > 0 && h.last() > 1) ==> (d.len() > 0 && d[0] == h.last())
        &&& (h.len() > 0 && h.last() <= 1) ==> d.len() == 0
        &&& h.len() == 0 ==> d.len() == 0
    })
    decreases h.len()
{
    if h.len() > 0 {
        lemma_prefix(h);
        let p = h.drop_last();
        lemma_distinct_shape(p);
        let d = distinct_desc(p);
        let r = h.last();
        if p.len() > 0 {
            assert(p.last() == h[h.len() - 2]);
            assert(h[h.len() - 2] <= h[h.len() - 1]);
        }
        if r <= 1 {
            // then the whole history is <= 1
            if p.len() > 0 { assert(p.last() <= 1); }
        } else if d.len() > 0 && d[0] >= r {
            assert(p.len() > 0 && p.last() > 1) by {
                if p.len() == 0 || p.last() <= 1 { assert(d.len() == 0); }
            }
            assert(d[0] == p.last());
            assert(d[0] == r);
        } else {
            let d2 = seq![r] + d;
            assert forall|i: int, j: int| #![auto] 0 <= i < j < d2.len() implies d2[i] > d2[j] by {
                if i == 0 {
                    assert(d2[j] == d[j - 1]);
                    if d.len() > 0 {
                        assert(d[0] < r);
                        if j - 1 > 0 { assert(d[0] > d[j - 1]); }
                    }
                } else {
                    assert(d2[i] == d[i - 1] && d2[j] == d[j - 1]);
                }
            }
            assert forall|i: int| #![auto] 0 <= i < d2.len() implies d2[i] > 1 by {
                if i > 0 { assert(d2[i] == d[i - 1]); }
            }
        }
    }
}

//@ob id=L-REVQ-1 kind=L props=C09 fn=RevisionQueue::new,RevisionQueue::record,RevisionQueue::record_cold
//@ pre: any capacity cap >= 1; any history of recorded revisions that never decreases (the database's current revision at each interning)
//@ post: the queue holds exactly the most recent `cap` distinct active revisions (> the start revision), newest first, padded with the start revision
proof fn lemma_queue_holds_recent_distinct(cap: nat, h: Seq<nat>)
    requires cap >= 1, nondecreasing(h), all_ge1(h),
    ensures ({
        let q = run(cap, h);
        let d = distinct_desc(h);
        &&& q.len() == cap
        &&& forall|i: int| #![auto] 0 <= i < cap ==> q[i] == if i < d.len() { d[i] } else { 1nat }
    })
    decreases h.len()
{
    if h.len() > 0 {
        lemma_prefix(h);
        let p = h.drop_last();
        lemma_queue_holds_recent_distinct(cap, p);
        lemma_distinct_shape(p);
        lemma_distinct_shape(h);
        let q = run(cap, p);
        let d = distinct_desc(p);
        let r = h.last();
        assert(r >= 1) by { assert(h[h.len() - 1] >= 1); }
        let q2 = record(q, r);
        let d2 = distinct_desc(h);
        assert(q[0] == if 0 < d.len() { d[0] } else { 1nat });
        if q[0] >= r {
            // no-op on the queue; and on the distinct list
            assert(q2 == q);
            if r <= 1 {
                assert(d2 == d);
            } else {
                assert(d.len() > 0 && d[0] >= r);
                assert(d2 == d);
            }
        } else {
            assert(r > 1);
            assert(!(d.len() > 0 && d[0] >= r));
            assert(d2 == seq![r] + d);
            assert(q2 == seq![r] + q.drop_last());
            assert(q2.len() == cap);
            assert forall|i: int| #![auto] 0 <= i < cap implies q2[i] == if i < d2.len() { d2[i] } else { 1nat } by {
                if i == 0 {
                } else {
                    assert(q2[i] == q[i - 1]);
                    assert(q[i - 1] == if i - 1 < d.len() { d[i - 1] } else { 1nat });
                    if i < d2.len() { assert(d2[i] == d[i - 1]); }
                }
            }
        }
    }
}

//@ob id=L-REVQ-2 kind=L props=C09 fn=RevisionQueue::is_stale,RevisionQueue::is_primed
//@ pre: as L-REVQ-1; a value last interned (or revalidated, K-INT-3) at revision x
//@ post: reclamation is possible at all (primed) <=> at least `cap` distinct active revisions have occurred; the value is stale <=> that, and x is strictly older than the cap-th most recent of them - a value interned or revalidated in any of the last `cap` active revisions is never stale
proof fn lemma_stale_means_older_than_window(cap: nat, h: Seq<nat>, x: nat)
    requires cap >= 1, nondecreasing(h), all_ge1(h),
    ensures ({
        let q = run(cap, h);
        let d = distinct_desc(h);
        &&& is_primed(q) <==> d.len() >= cap
        &&& is_stale(q, x) <==> (d.len() >= cap && x < d[cap - 1])
        &&& (d.len() >= cap && exists|i: int| 0 <= i < cap && d[i] == x) ==> !is_stale(q, x)
    })
{
    lemma_queue_holds_recent_distinct(cap, h);
    lemma_distinct_shape(h);
    let q = run(cap, h);
    let d = distinct_desc(h);
    assert(q.last() == q[cap - 1]);
    assert(q[cap - 1] == if cap - 1 < d.len() { d[cap - 1] } else { 1nat });
    if d.len() >= cap {
        assert(d[cap - 1] > 1);
        if exists|i: int| 0 <= i < cap && d[i] == x {
            let i = choose|i: int| 0 <= i < cap && d[i] == x;
            if i < cap - 1 { assert(d[i] > d[cap - 1]); }
        }
    }
}

} // verus!
fn main() {}
