// L-EDGESEQ: lifts the per-edge contracts (K-EDGE-2a/2b/2c, complete) to edge sequences of any length.
use vstd::prelude::*;
verus! {

pub struct Edge { pub index: nat, pub generation: nat, pub ingredient: nat }
pub struct Packed { pub index: nat, pub metadata: nat }

/// `edge_fits` of the harnesses / the property text.
pub open spec fn fits(e: Edge) -> bool { e.ingredient <= 0xFFF && e.generation <= 0xFFFFF }
pub open spec fn is_output(e: Edge) -> bool { e.ingredient >= 0x8000_0000 }

/// Abstract encoder/decoder constrained only by what Kani proved about the real functions.
pub uninterp spec fn enc(e: Edge) -> Packed;
pub uninterp spec fn dec(p: Packed) -> Edge;

/// K-EDGE-2c (complete, all 96 bits): `edge(new(e)) == e` whenever `new(e)` is `Some`, i.e. whenever e fits.
pub open spec fn roundtrip_contract() -> bool { forall|e: Edge| fits(e) ==> dec(#[trigger] enc(e)) == e }

pub open spec fn all_fit(s: Seq<Edge>) -> bool { forall|i: int| 0 <= i < s.len() ==> fits(#[trigger] s[i]) }

/// What `allocate_derived_with_header` stores: element i at position i, packed iff every element fits
/// (the bounded instance of this is what K-ORIGIN-n checks on the real allocation code).
pub enum Stored { PackedSeq(Seq<Packed>), WideSeq(Seq<Edge>) }
pub open spec fn store(s: Seq<Edge>) -> Stored {
    if all_fit(s) { Stored::PackedSeq(Seq::new(s.len(), |i: int| enc(s[i]))) } else { Stored::WideSeq(s) }
}
/// What `QueryEdges::iter` yields.
pub open spec fn read(st: Stored) -> Seq<Edge> {
    match st {
        Stored::PackedSeq(p) => Seq::new(p.len(), |i: int| dec(p[i])),
        Stored::WideSeq(w) => w,
    }
}

//@ob id=L-EDGESEQ-1 kind=L props=C25 fn=OriginAndExtra::allocate_derived_with_header,QueryEdges::iter
//@ pre: the per-edge round-trip contract; any edge sequence of any length
//@ post: read(store(s)) == s (same edges, same order); the compact layout is chosen iff every edge fits
proof fn lemma_sequence_roundtrip(s: Seq<Edge>)
    requires roundtrip_contract()
    ensures read(store(s)) =~= s,
            (store(s) is PackedSeq) <==> all_fit(s),
{
    if all_fit(s) {
        assert forall|i: int| #![auto] 0 <= i < s.len() implies read(store(s))[i] == s[i] by {
            assert(fits(s[i]));
        }
    }
}

//@ob id=L-EDGESEQ-2 kind=L props=C25 fn=QueryOriginRef::inputs,QueryOriginRef::outputs
//@ pre: any edge sequence
//@ post: the input view and the output view partition it: every position belongs to exactly one, sizes add up, relative order is kept (both are order-preserving filters)
proof fn lemma_partition(s: Seq<Edge>)
    ensures s.filter(|e: Edge| !is_output(e)).len() + s.filter(|e: Edge| is_output(e)).len() == s.len(),
    decreases s.len()
{
    reveal(Seq::filter);
    if s.len() > 0 {
        lemma_partition(s.drop_last());
    }
}

//@ob id=L-EDGESEQ-3 kind=L props=C25 fn=PackedQueryEdge::new
//@ pre: any sequence containing an output edge
//@ post: it is never stored in the compact layout (so `iter_outputs`, which only scans the wide layout, loses no output)
proof fn lemma_outputs_force_wide(s: Seq<Edge>, i: int)
    requires 0 <= i < s.len(), is_output(s[i])
    ensures !(store(s) is PackedSeq)
{
    assert(!fits(s[i]));
}

} // verus!
fn main() {}
