// L-LRU-3: what the per-call contracts of `Lru` (V-LRU-3 `new`, V-LRU-5 `record_use`, V-LRU-1 `for_each_evicted`,
// discharged by Verus on the extracted real functions) mean for **whole request histories**: after any sequence
// of requests the recency order lists every requested key exactly once, sorted by the time of its *last*
// request, so whatever an eviction pass drops was requested (last) before everything it keeps.
use vstd::prelude::*;
verus! {

pub struct Id { pub bits: u64 }

/// As in lru.template.rs (the postcondition of V-LRU-4/5).
pub open spec fn without(s: Seq<Id>, k: Id) -> Seq<Id> { s.filter(|x: Id| x != k) }
pub open spec fn moved_to_back(s: Seq<Id>, k: Id) -> Seq<Id> { without(s, k).push(k) }

/// The recency order after a history of requests with eviction enabled, starting from the empty order of V-LRU-3.
pub open spec fn order_after(h: Seq<Id>) -> Seq<Id>
    decreases h.len()
{
    if h.len() == 0 { Seq::<Id>::empty() } else { moved_to_back(order_after(h.drop_last()), h.last()) }
}

/// Position of the last request of `k` in `h` (-1: never requested).
pub open spec fn last_use(h: Seq<Id>, k: Id) -> int
    decreases h.len()
{
    if h.len() == 0 { -1 } else if h.last() == k { h.len() - 1 } else { last_use(h.drop_last(), k) }
}

proof fn lemma_last_use(h: Seq<Id>, k: Id)
    ensures -1 <= last_use(h, k) < h.len(),
            last_use(h, k) >= 0 <==> h.contains(k),
    decreases h.len()
{
    if h.len() > 0 {
        let p = h.drop_last();
        lemma_last_use(p, k);
        if h.last() == k {
            assert(h[h.len() - 1] == k);
        } else {
            if h.contains(k) {
                let i = choose|i: int| 0 <= i < h.len() && h[i] == k;
                assert(p[i] == k);
            }
            if p.contains(k) {
                let i = choose|i: int| 0 <= i < p.len() && p[i] == k;
                assert(h[i] == k);
            }
        }
    }
}

/// `without` on a duplicate-free sequence removes the one occurrence, if any.
proof fn lemma_without_is_remove(s: Seq<Id>, k: Id)
    requires s.no_duplicates(),
    ensures s.contains(k) ==> without(s, k) =~= s.remove(s.index_of(k)),
            !s.contains(k) ==> without(s, k) =~= s,
    decreases s.len()
{
    reveal_with_fuel(Seq::filter, 2);
    if s.len() > 0 {
        let p = s.drop_last();
        let l = s.last();
        assert forall|i: int, j: int| 0 <= i < p.len() && 0 <= j < p.len() && i != j implies p[i] != p[j] by {
            assert(p[i] == s[i] && p[j] == s[j]);
        }
        lemma_without_is_remove(p, k);
        assert(s =~= p.push(l));
        if l == k {
            // k occurs only at the end
            if p.contains(k) {
                let i = choose|i: int| 0 <= i < p.len() && p[i] == k;
                assert(s[i] == k && s[s.len() - 1] == k);
            }
            assert(s[s.len() - 1] == k);
            assert(s.contains(k));
            let q = s.index_of(k);
            assert(s[q] == k);
            assert(q == s.len() - 1);
            assert(without(s, k) =~= without(p, k));
            assert(s.remove(q) =~= p);
        } else {
            assert(without(s, k) =~= without(p, k).push(l));
            if p.contains(k) {
                let q = p.index_of(k);
                assert(p[q] == k);
                assert(s[q] == k);
                assert(s.contains(k));
                let q2 = s.index_of(k);
                assert(s[q2] == k);
                assert(q2 == q);
                assert(p.remove(q).push(l) =~= s.remove(q));
            } else {
                if s.contains(k) {
                    let i = choose|i: int| 0 <= i < s.len() && s[i] == k;
                    assert(i < p.len());
                    assert(p[i] == k);
                }
            }
        }
    }
}

/// The invariant of the recency order over request histories.
pub open spec fn recency_inv(h: Seq<Id>, o: Seq<Id>) -> bool {
    &&& o.no_duplicates()
    &&& forall|k: Id| #![auto] o.contains(k) <==> h.contains(k)
    &&& forall|i: int, j: int| #![auto] 0 <= i < j < o.len() ==> last_use(h, o[i]) < last_use(h, o[j])
}

//@ob id=L-LRU-3 kind=L props=C05 fn=Lru::new,Lru::record_use,Lru::insert
//@ pre: any history of requests (cache hits and executions alike: G-LRU-1) with eviction enabled, starting from `Lru::new`
//@ post: the recency order lists every requested key exactly once, sorted by the position of its **last** request
proof fn lemma_recency_order(h: Seq<Id>)
    ensures recency_inv(h, order_after(h)),
    decreases h.len()
{
    if h.len() > 0 {
        let p = h.drop_last();
        let u = h.last();
        lemma_recency_order(p);
        let o = order_after(p);
        lemma_without_is_remove(o, u);
        let w = without(o, u);
        let o2 = w.push(u);
        assert(order_after(h) == o2);
        assert(h =~= p.push(u));
        // facts about last_use after one more request
        assert forall|k: Id| k != u implies last_use(h, k) == last_use(p, k) by {}
        assert(last_use(h, u) == h.len() - 1);
        assert forall|k: Id| #![auto] last_use(p, k) < h.len() - 1 by { lemma_last_use(p, k); }
        // w: o with u taken out
        if o.contains(u) {
            let q = o.index_of(u);
            assert(o[q] == u);
            assert(w =~= o.remove(q));
            assert forall|i: int| 0 <= i < w.len() implies #[trigger] w[i] == o[if i < q { i } else { i + 1 }] && w[i] != u by {
                let src = if i < q { i } else { i + 1 };
                assert(w[i] == o[src]);
                assert(src != q);
            }
        } else {
            assert(w =~= o);
            assert forall|i: int| 0 <= i < w.len() implies #[trigger] w[i] != u by {
                if w[i] == u { assert(o[i] == u); assert(o.contains(u)); }
            }
        }
        // (a) no duplicates
        assert forall|i: int, j: int| 0 <= i < o2.len() && 0 <= j < o2.len() && i != j implies o2[i] != o2[j] by {
            if i < w.len() && j < w.len() {
                if o.contains(u) {
                    let q = o.index_of(u);
                    let si = if i < q { i } else { i + 1 };
                    let sj = if j < q { j } else { j + 1 };
                    assert(w[i] == o[si] && w[j] == o[sj] && si != sj);
                } else {
                    assert(w[i] == o[i] && w[j] == o[j]);
                }
            } else if i < w.len() {
                assert(o2[j] == u && o2[i] == w[i]);
            } else {
                assert(o2[i] == u && o2[j] == w[j]);
            }
        }
        // (b) membership
        assert forall|k: Id| #![auto] o2.contains(k) <==> h.contains(k) by {
            if o2.contains(k) {
                let i = choose|i: int| 0 <= i < o2.len() && o2[i] == k;
                if i < w.len() {
                    assert(w[i] == k);
                    if o.contains(u) {
                        let q = o.index_of(u);
                        assert(o[if i < q { i } else { i + 1 }] == k);
                    } else {
                        assert(o[i] == k);
                    }
                    assert(o.contains(k));
                    assert(p.contains(k));
                    let m = choose|m: int| 0 <= m < p.len() && p[m] == k;
                    assert(h[m] == k);
                } else {
                    assert(k == u);
                    assert(h[h.len() - 1] == u);
                }
            }
            if h.contains(k) {
                if k == u {
                    assert(o2[o2.len() - 1] == u);
                } else {
                    let m = choose|m: int| 0 <= m < h.len() && h[m] == k;
                    assert(m < p.len());
                    assert(p[m] == k);
                    assert(p.contains(k));
                    assert(o.contains(k));
                    let t = o.index_of(k);
                    assert(o[t] == k);
                    if o.contains(u) {
                        let q = o.index_of(u);
                        assert(t != q);
                        let wi = if t < q { t } else { t - 1 };
                        assert(w[wi] == k);
                        assert(o2[wi] == k);
                    } else {
                        assert(w[t] == k);
                        assert(o2[t] == k);
                    }
                }
            }
        }
        // (c) sorted by last use
        assert forall|i: int, j: int| #![auto] 0 <= i < j < o2.len() implies last_use(h, o2[i]) < last_use(h, o2[j]) by {
            assert(o2[i] == w[i] && w[i] != u);
            if j == w.len() {
                assert(o2[j] == u);
            } else {
                assert(o2[j] == w[j] && w[j] != u);
                if o.contains(u) {
                    let q = o.index_of(u);
                    let si = if i < q { i } else { i + 1 };
                    let sj = if j < q { j } else { j + 1 };
                    assert(w[i] == o[si] && w[j] == o[sj] && si < sj);
                } else {
                    assert(w[i] == o[i] && w[j] == o[j]);
                }
            }
        }
    }
}

//@ob id=L-LRU-4 kind=L props=C05 fn=Lru::for_each_evicted
//@ pre: any request history h; an eviction pass with the postcondition of V-LRU-1: it keeps the length-m suffix of the recency order
//@ post: every key it drops was last requested **before** every key it keeps; kept and dropped keys together are exactly the requested keys, none twice - "the discarded ones are the least recently requested", for histories of any length
proof fn lemma_evicted_are_least_recently_requested(h: Seq<Id>, m: int)
    requires 0 <= m <= order_after(h).len(),
    ensures ({
        let o = order_after(h);
        let n = o.len() as int;
        let dropped = o.subrange(0, n - m);
        let kept = o.subrange(n - m, n);
        &&& forall|i: int, j: int| #![auto] 0 <= i < dropped.len() && 0 <= j < kept.len() ==> last_use(h, dropped[i]) < last_use(h, kept[j])
        &&& forall|k: Id| #![auto] h.contains(k) <==> (dropped.contains(k) || kept.contains(k))
        &&& (dropped + kept).no_duplicates()
    })
{
    lemma_recency_order(h);
    let o = order_after(h);
    let n = o.len() as int;
    let dropped = o.subrange(0, n - m);
    let kept = o.subrange(n - m, n);
    assert(dropped + kept =~= o);
    assert forall|i: int, j: int| #![auto] 0 <= i < dropped.len() && 0 <= j < kept.len() implies last_use(h, dropped[i]) < last_use(h, kept[j]) by {
        assert(dropped[i] == o[i] && kept[j] == o[n - m + j]);
    }
    assert forall|k: Id| #![auto] h.contains(k) <==> (dropped.contains(k) || kept.contains(k)) by {
        if h.contains(k) {
            assert(o.contains(k));
            let t = o.index_of(k);
            assert(o[t] == k);
            if t < n - m { assert(dropped[t] == k); } else { assert(kept[t - (n - m)] == k); }
        }
        if dropped.contains(k) {
            let i = choose|i: int| 0 <= i < dropped.len() && dropped[i] == k;
            assert(o[i] == k);
            assert(o.contains(k));
        }
        if kept.contains(k) {
            let i = choose|i: int| 0 <= i < kept.len() && kept[i] == k;
            assert(o[n - m + i] == k);
            assert(o.contains(k));
        }
    }
}

} // verus!
fn main() {}
