// L-ITER: the per-call contract of `IterationStamp::increment_iteration` (K-STAMP-2, discharged by Kani
// on the real function) bounds every chain of fixpoint iterations.
use vstd::prelude::*;
verus! {

/// A stamp as (iteration, cancellation_count), the abstraction proved faithful by K-STAMP-1.
pub struct Stamp { pub iteration: nat, pub cancellation: nat }

/// The contract of K-STAMP-2, as a spec function.
pub open spec fn increment(s: Stamp) -> Option<Stamp> {
    if s.iteration < 200 { Some(Stamp { iteration: s.iteration + 1, cancellation: s.cancellation }) } else { None }
}

/// `n` successive successful increments starting from `s`.
pub open spec fn steps(s: Stamp, n: nat) -> Option<Stamp>
    decreases n
{
    if n == 0 { Some(s) } else {
        match steps(s, (n - 1) as nat) {
            Some(t) => increment(t),
            None => None,
        }
    }
}

//@ob id=L-ITER-1 kind=L props=C15 fn=IterationStamp::increment_iteration
//@ pre: any stamp with iteration i <= 200, any number n of successive increments
//@ post: they all succeed only if i + n <= 200, and then the result is (i + n, same cancellation count): at most 200 - i further iterations are ever granted and the epoch byte never changes (no carry into it)
proof fn lemma_chain_bounded(s: Stamp, n: nat)
    requires s.iteration <= 200
    ensures
        steps(s, n).is_some() <==> s.iteration + n <= 200,
        steps(s, n).is_some() ==> steps(s, n).unwrap().iteration == s.iteration + n
            && steps(s, n).unwrap().cancellation == s.cancellation,
    decreases n
{
    if n > 0 {
        lemma_chain_bounded(s, (n - 1) as nat);
    }
}

//@ob id=L-ITER-2 kind=L props=C15 fn=IterationStamp::increment_iteration
//@ pre: a fixpoint loop that starts at the initial stamp (iteration 0)
//@ post: the 201st increment is refused: steps(initial, 201) is None
proof fn lemma_at_most_200(c: nat)
    ensures steps(Stamp { iteration: 0, cancellation: c }, 201).is_none(),
            steps(Stamp { iteration: 0, cancellation: c }, 200).is_some(),
{
    lemma_chain_bounded(Stamp { iteration: 0, cancellation: c }, 201);
    lemma_chain_bounded(Stamp { iteration: 0, cancellation: c }, 200);
}

} // verus!
fn main() {}
