// L-IN: a history lemma for C02 over the *contracts* of the input setter (K-IN-1), the revision vector
// (K-RT-1/2/3 through the reference functions of refs.rs) and the shallow verification test (K-MCA-1):
// whatever sequence of writes with changing durabilities happens, if the shallow test accepts a memo that read
// input field x, then x has not been written since - and a field that was made never-change is never written
// again.  The transition relation below restates those contracts; nothing here is salsa code.
use vstd::prelude::*;
verus! {

/// Durabilities 0..=3 (LOW, MEDIUM, HIGH, NEVER_CHANGE).
pub enum Ev {
    /// A new revision without a write (`Zalsa::new_revision`, the first half of every setter / synthetic write).
    NewRev,
    /// The setter of field x runs (`set_field`, after the setter's `new_revision`), optionally installing a new durability.
    WriteX(Option<nat>),
    /// Some other field whose *current* durability is `d` (0..=2) is written, or a synthetic write of `d`.
    WriteOther(nat),
}

pub struct St {
    /// `Runtime.revisions`: [current, last change of durability >= MEDIUM, last change of durability >= HIGH]
    pub revs: Seq<nat>,
    /// current durability of field x
    pub dx: nat,
    /// revision in which field x was last set
    pub rx: nat,
}

/// K-RT-2 / R-REF-2: `report_tracked_write(d)` for d in 0..=2.
pub open spec fn write(revs: Seq<nat>, d: nat) -> Seq<nat> {
    Seq::new(3, |i: int| if 1 <= i <= d { revs[0] } else { revs[i] })
}
/// K-RT-3 / R-REF-3.
pub open spec fn last_changed(revs: Seq<nat>, d: nat) -> nat { if d < 3 { revs[d as int] } else { 1 } }

pub open spec fn wf(s: St) -> bool {
    s.revs.len() == 3 && s.revs[0] >= s.revs[1] && s.revs[1] >= s.revs[2] && s.revs[2] >= 1 && s.dx <= 3 && s.rx <= s.revs[0]
}
pub open spec fn valid_ev(e: Ev) -> bool {
    match e {
        Ev::NewRev => true,
        Ev::WriteX(Some(d)) => d <= 3,
        Ev::WriteX(None) => true,
        Ev::WriteOther(d) => d <= 2,
    }
}

/// One step.  `WriteX` is K-IN-1's postcondition: a never-change field panics before anything changes (K-IN-2),
/// otherwise `revisions[x] := current`, the **old** durability is reported (`report_tracked_write(old)` unless
/// LOW, which `write(_, 0)` also models: it touches no level), the new durability is installed.
pub open spec fn step(s: St, e: Ev) -> St {
    match e {
        Ev::NewRev => St { revs: seq![s.revs[0] + 1, s.revs[1], s.revs[2]], ..s },
        Ev::WriteX(dn) => if s.dx == 3 { s } else {
            St { revs: write(s.revs, s.dx), dx: match dn { Some(d) => d, None => s.dx }, rx: s.revs[0] }
        },
        Ev::WriteOther(d) => St { revs: write(s.revs, d), ..s },
    }
}
pub open spec fn run(s: St, h: Seq<Ev>) -> St
    decreases h.len()
{
    if h.len() == 0 { s } else { step(run(s, h.drop_last()), h.last()) }
}
pub open spec fn valid(h: Seq<Ev>) -> bool { forall|i: int| 0 <= i < h.len() ==> valid_ev(#[trigger] h[i]) }
/// The setter protocol (`setup_input_struct!`): every write of x is preceded by a new revision.
pub open spec fn setter_protocol(h: Seq<Ev>) -> bool {
    forall|i: int| 0 <= i < h.len() && (#[trigger] h[i]) is WriteX ==> i > 0 && h[i - 1] is NewRev
}

proof fn lemma_step_wf(s: St, e: Ev)
    requires wf(s), valid_ev(e),
    ensures wf(step(s, e)),
            forall|d: nat| #![auto] d <= 3 ==> last_changed(step(s, e).revs, d) >= last_changed(s.revs, d),
            step(s, e).revs[0] >= s.revs[0],
{
}

/// What the memo of a function that read x at state `p` relies on afterwards.
pub open spec fn inv(p: St, md: nat, s: St) -> bool {
    // either x is untouched (same last-set revision, same durability) ...
    (s.rx == p.rx && s.dx == p.dx)
    // ... or the shallow test for a memo of durability `md` verified at `p.revs[0]` fails
    || last_changed(s.revs, md) > p.revs[0]
}

//@ob id=L-IN-1 kind=L props=C02,C01,C03 fn=IngredientImpl::set_field,Runtime::report_tracked_write,MemoHeader::shallow_verify_memo
//@ pre: any state p in which a function read input field x (current revision V = p.revs[0], x's durability p.dx); its memo's durability md <= p.dx (K-AQ-1: min over what it read); then any valid history following the setter protocol, with writes of x that raise or lower its durability and any writes of other fields / synthetic writes
//@ post: at every later point: if `last_changed(md) <= V` (the shallow verification test, K-MCA-1) then x was not set since V (same last-set revision) - shallow verification never accepts a memo whose input was written, whatever the durabilities did in between
proof fn lemma_shallow_implies_untouched(p: St, md: nat, h: Seq<Ev>)
    requires wf(p), md <= p.dx, md <= 3, valid(h), setter_protocol(h),
    ensures wf(run(p, h)), run(p, h).revs[0] >= p.revs[0],
            inv(p, md, run(p, h)),
            // a write of x can only take effect in a revision after V
            h.len() > 0 && h.last() is NewRev ==> run(p, h).revs[0] > p.revs[0],
    decreases h.len()
{
    if h.len() > 0 {
        let q = h.drop_last();
        let e = h.last();
        assert forall|i: int| 0 <= i < q.len() implies valid_ev(#[trigger] q[i]) by { assert(q[i] == h[i]); }
        assert forall|i: int| 0 <= i < q.len() && (#[trigger] q[i]) is WriteX implies i > 0 && q[i - 1] is NewRev by {
            assert(q[i] == h[i]);
            assert(h[i] is WriteX);
            assert(q[i - 1] == h[i - 1]);
        }
        lemma_shallow_implies_untouched(p, md, q);
        let s = run(p, q);
        assert(valid_ev(h[h.len() - 1]));
        lemma_step_wf(s, e);
        match e {
            Ev::WriteX(dn) => {
                // preceded by NewRev: the current revision is already beyond V
                assert(h[h.len() - 1] is WriteX);
                assert(q.len() > 0 && q.last() is NewRev) by { assert(q.last() == h[h.len() - 2]); }
                assert(s.revs[0] > p.revs[0]);
                if s.dx != 3 {
                    if s.rx == p.rx && s.dx == p.dx {
                        // first write since V: the old durability reported is p.dx >= md
                        assert(last_changed(write(s.revs, s.dx), md) > p.revs[0]);
                    }
                }
            }
            _ => {}
        }
    }
}

//@ob id=L-IN-2 kind=L props=C02 fn=IngredientImpl::set_field
//@ pre: a field that has been given the never-change durability; any later valid history
//@ post: the field is never set again (every later write attempt is the panicking case of K-IN-2 and changes nothing): same last-set revision, still never-change, and the revision vector is only moved by the other events
proof fn lemma_never_change_is_frozen(p: St, h: Seq<Ev>)
    requires wf(p), p.dx == 3, valid(h),
    ensures run(p, h).dx == 3, run(p, h).rx == p.rx, wf(run(p, h)),
    decreases h.len()
{
    if h.len() > 0 {
        let q = h.drop_last();
        assert forall|i: int| 0 <= i < q.len() implies valid_ev(#[trigger] q[i]) by { assert(q[i] == h[i]); }
        lemma_never_change_is_frozen(p, q);
        assert(valid_ev(h[h.len() - 1]));
        lemma_step_wf(run(p, q), h.last());
    }
}

} // verus!
fn main() {}
