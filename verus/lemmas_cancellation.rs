// L-EPOCH / L-TOKEN: what the per-call contracts of the cancellation machinery mean over whole histories.
//  * K-RT-1 (`Runtime::new_revision` resets the cancellation count), K-RT-4 (`bump_cancellation_count` reports
//    overflow exactly at 255), `Storage::cancel_others` = bump, and a new revision on overflow (its body is NOT
//    under an obligation - DESIGN 13.6, seed C20a - so that line is an assumption of this lemma);
//    K-EXE-1 / K-MCA-5 / G-CYCLE-1: a provisional memo is continued, validated or treated as "this execution's
//    poison" only if its (revision, epoch) stamp equals the current one.
//  * K-TOKEN-1 (all 256 token states x 4 operations).
use vstd::prelude::*;
verus! {

pub enum Op {
    /// `Zalsa::new_revision` (an input write / synthetic write).
    NewRevision,
    /// `Storage::cancel_others` (every write, LRU change, trigger_cancellation): bump, new revision on overflow.
    Cancel,
}
pub struct Epoch { pub rev: nat, pub count: nat }

pub open spec fn step(e: Epoch, op: Op) -> Epoch {
    match op {
        Op::NewRevision => Epoch { rev: e.rev + 1, count: 0 },
        Op::Cancel => if e.count >= 255 { Epoch { rev: e.rev + 1, count: 0 } } else { Epoch { rev: e.rev, count: e.count + 1 } },
    }
}
pub open spec fn run(e: Epoch, h: Seq<Op>) -> Epoch
    decreases h.len()
{
    if h.len() == 0 { e } else { step(run(e, h.drop_last()), h.last()) }
}
/// Lexicographic order on (revision, cancellation count) - the order of `IterationStamp` within a revision (K-STAMP-3).
pub open spec fn before(a: Epoch, b: Epoch) -> bool { a.rev < b.rev || (a.rev == b.rev && a.count < b.count) }

//@ob id=L-EPOCH-1 kind=L props=C20 fn=Runtime::new_revision,Runtime::bump_cancellation_count,Storage::cancel_others
//@ pre: any state with count <= 255; any non-empty history of new revisions and cancellations
//@ post: the (revision, epoch) pair afterwards is strictly later than the pair before, and the count stays <= 255: no two executions separated by a cancellation or a write ever carry the same stamp, so a provisional memo stamped by an abandoned execution can never pass the "same revision and same epoch" tests of K-EXE-1 / K-MCA-5 / G-CYCLE-1 again
proof fn lemma_epoch_strictly_increases(e: Epoch, h: Seq<Op>)
    requires e.count <= 255, h.len() > 0,
    ensures before(e, run(e, h)), run(e, h).count <= 255,
    decreases h.len()
{
    let p = h.drop_last();
    if p.len() > 0 {
        lemma_epoch_strictly_increases(e, p);
    } else {
        assert(run(e, p) == e);
    }
}

// ---------------------------------------------------------------------------------------------
// the local cancellation token (two bits)
// ---------------------------------------------------------------------------------------------
pub enum TokOp { Cancel, SetDisabled(bool), Reset }
pub struct Tok { pub cancelled: bool, pub disabled: bool }

/// K-TOKEN-1: cancel keeps the disabled bit; set_cancellation_disabled only touches the disabled bit; reset clears both.
pub open spec fn tstep(t: Tok, op: TokOp) -> Tok {
    match op {
        TokOp::Cancel => Tok { cancelled: true, ..t },
        TokOp::SetDisabled(b) => Tok { disabled: b, ..t },
        TokOp::Reset => Tok { cancelled: false, disabled: false },
    }
}
pub open spec fn trun(h: Seq<TokOp>) -> Tok
    decreases h.len()
{
    if h.len() == 0 { Tok { cancelled: false, disabled: false } } else { tstep(trun(h.drop_last()), h.last()) }
}
/// K-TOKEN-1: `should_trigger_local_cancellation`.
pub open spec fn triggers(t: Tok) -> bool { t.cancelled && !t.disabled }

/// Was `cancel()` called since the last reset?
pub open spec fn cancel_pending(h: Seq<TokOp>) -> bool
    decreases h.len()
{
    if h.len() == 0 { false } else {
        match h.last() {
            TokOp::Cancel => true,
            TokOp::Reset => false,
            TokOp::SetDisabled(_) => cancel_pending(h.drop_last()),
        }
    }
}
/// Is cancellation currently disabled (innermost effective `set_cancellation_disabled` since the last reset)?
pub open spec fn currently_disabled(h: Seq<TokOp>) -> bool
    decreases h.len()
{
    if h.len() == 0 { false } else {
        match h.last() {
            TokOp::SetDisabled(b) => b,
            TokOp::Reset => false,
            TokOp::Cancel => currently_disabled(h.drop_last()),
        }
    }
}

//@ob id=L-TOKEN-1 kind=L props=C21 fn=CancellationToken::cancel,CancellationToken::set_cancellation_disabled,CancellationToken::reset,CancellationToken::should_trigger_local_cancellation
//@ pre: any history of cancel / set_cancellation_disabled(b) / reset on a fresh token
//@ post: the handle's next tracked-function request unwinds <=> cancel() was called since the last reset and cancellation is not currently disabled; a cancel that arrives while cancellation is disabled (fixpoint iteration) is not lost: it triggers as soon as the guard re-enables cancellation, unless the outermost scope has ended (reset) in between
proof fn lemma_token_history(h: Seq<TokOp>)
    ensures trun(h).cancelled == cancel_pending(h),
            trun(h).disabled == currently_disabled(h),
            triggers(trun(h)) == (cancel_pending(h) && !currently_disabled(h)),
    decreases h.len()
{
    if h.len() > 0 {
        lemma_token_history(h.drop_last());
    }
}

} // verus!
fn main() {}
