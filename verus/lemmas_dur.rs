// L-DUR: history lemma over the reference functions of refs.rs (this text is appended inside the
// same verus!{} block by tools/verus_run.py).

pub enum Op { NewRev, Write(nat) }

pub open spec fn valid_op(op: Op) -> bool { match op { Op::NewRev => true, Op::Write(d) => d <= 2 } }
pub open spec fn valid(h: Seq<Op>) -> bool { forall|i: int| 0 <= i < h.len() ==> valid_op(#[trigger] h[i]) }

/// The state transition proved equal to `Runtime::new_revision` / `Runtime::report_tracked_write`
/// by Kani (K-RT-1, K-RT-2) through `ref_new_revision` / `ref_write`.
pub open spec fn apply(s: Seq<nat>, op: Op) -> Seq<nat> {
    match op {
        Op::NewRev => seq![s[0] + 1, s[1], s[2]],
        Op::Write(d) => Seq::new(3, |i: int| if 1 <= i <= d { s[0] } else { s[i] }),
    }
}
pub open spec fn run(h: Seq<Op>) -> Seq<nat>
    decreases h.len()
{
    if h.len() == 0 { seq![1nat, 1nat, 1nat] } else { apply(run(h.drop_last()), h.last()) }
}
/// Proved equal to `Runtime::last_changed_revision` by Kani (K-RT-3) through `ref_last_changed`.
pub open spec fn last_changed(s: Seq<nat>, d: nat) -> nat { if d < 3 { s[d as int] } else { 1 } }

/// revision in which the i-th operation takes effect
pub open spec fn rev_of(h: Seq<Op>, i: int) -> nat { run(h.subrange(0, i + 1))[0] }

proof fn lemma_valid_prefix(h: Seq<Op>)
    requires valid(h), h.len() > 0,
    ensures valid(h.drop_last()), valid_op(h.last()),
{
    assert forall|i: int| 0 <= i < h.drop_last().len() implies valid_op(#[trigger] h.drop_last()[i]) by {
        assert(h.drop_last()[i] == h[i]);
    }
    assert(valid_op(h[h.len() - 1]));
}

//@ob id=L-DUR-1 kind=L props=C02,C01,C03,C04 fn=Runtime::new_revision,Runtime::report_tracked_write
//@ pre: any history of NewRevision | Write(d), d in {LOW, MEDIUM, HIGH}, starting from Runtime::default
//@ post: the revision vector has 3 levels and stays monotone: r[0] >= r[1] >= r[2] >= 1 (the invariant every K-RT/K-MCA harness assumes)
proof fn lemma_shape(h: Seq<Op>)
    requires valid(h)
    ensures run(h).len() == 3, run(h)[0] >= run(h)[1] >= run(h)[2] >= 1,
    decreases h.len()
{
    if h.len() > 0 {
        lemma_valid_prefix(h);
        lemma_shape(h.drop_last());
    }
}

//@ob id=L-DUR-2 kind=L props=C02,C01,C03 fn=Runtime::last_changed_revision,MemoHeader::shallow_verify_memo
//@ pre: any valid history h, any level d <= HIGH, any write Write(dw) in h at position i with dw >= d
//@ post: rev_of(h, i) <= last_changed(run(h), d): a write of durability >= d is never *later* than what last_changed(d) reports - so `last_changed(d) <= verified_at` (the shallow-verification test) implies no such write happened after verified_at
proof fn lemma_dur(h: Seq<Op>, d: nat, i: int, dw: nat)
    requires valid(h), d <= 2, 0 <= i < h.len(), h[i] == Op::Write(dw), dw >= d,
    ensures rev_of(h, i) <= last_changed(run(h), d)
    decreases h.len()
{
    let p = h.drop_last();
    lemma_valid_prefix(h);
    lemma_shape(p);
    lemma_shape(h);
    if i == h.len() - 1 {
        assert(h.subrange(0, i + 1) == h);
    } else {
        assert(p.subrange(0, i + 1) == h.subrange(0, i + 1));
        assert(p[i] == h[i]);
        lemma_dur(p, d, i, dw);
    }
}

//@ob id=L-DUR-3 kind=L props=C04,C02 fn=Runtime::last_changed_revision
//@ pre: any valid history
//@ post: last_changed(LOW) is the current revision: a LOW-durability memo (what an untracked read forces) verified in an earlier revision never passes the shallow check
proof fn lemma_low_is_current(h: Seq<Op>)
    requires valid(h)
    ensures last_changed(run(h), 0) == run(h)[0]
{
    lemma_shape(h);
}

//@ob id=L-DUR-4 kind=L props=C02,C03 fn=Runtime::report_tracked_write
//@ pre: any valid history followed by NewRevision and Write(dw); any level d with dw < d <= HIGH
//@ post: last_changed(d) is unchanged by the write (precision: a lower-durability write does not invalidate more durable memos)
proof fn lemma_lower_write_keeps_higher(h: Seq<Op>, dw: nat, d: nat)
    requires valid(h), dw < d <= 2,
    ensures last_changed(apply(apply(run(h), Op::NewRev), Op::Write(dw)), d) == last_changed(run(h), d)
{
    lemma_shape(h);
}
