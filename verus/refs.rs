// Reference functions shared by both back ends (kind R).
//
// * Kani side: this file is compiled as is into the scratch crate (`crate::verif_support::refs`);
//   harnesses K-RT-1/2/3 and K-MCA-1 prove `real function == reference function` for all inputs.
// * Verus side: tools/verus_run.py strips the `//@ ` prefixes, wraps the file in `verus!{}` and appends
//   verus/lemmas_dur.rs; Verus proves `reference function |= spec` and the history lemma L-DUR.
// Lines ending in `//-` are dropped on the Verus side (plain-Rust signatures; the `//@` line that follows
// names the result for the ensures clause).  Function bodies are byte-identical on both sides; the only
// unchecked step is that line filter.

#[derive(Clone, Copy, PartialEq, Eq, Debug)]
pub struct Revs {
    pub r0: usize,
    pub r1: usize,
    pub r2: usize,
}

//@ pub open spec fn revs_view(r: Revs) -> Seq<nat> { seq![r.r0 as nat, r.r1 as nat, r.r2 as nat] }

//@ob id=R-REF-1 kind=R props=C02,C01 fn=Runtime::new_revision
//@ pre: r0 < usize::MAX
//@ post: (Verus side) ref_new_revision == apply(_, NewRev); Kani side K-RT-1 proves Runtime::new_revision == ref_new_revision
/// `Runtime::new_revision` on the revision vector.
pub fn ref_new_revision(r: Revs) -> Revs //-
//@ pub fn ref_new_revision(r: Revs) -> (out: Revs)
    //@ requires r.r0 < usize::MAX,
    //@ ensures revs_view(out) == apply(revs_view(r), Op::NewRev),
{
    Revs { r0: r.r0 + 1, r1: r.r1, r2: r.r2 }
}

//@ob id=R-REF-2 kind=R props=C02,C01 fn=Runtime::report_tracked_write
//@ pre: d in {LOW, MEDIUM, HIGH}
//@ post: (Verus side) ref_write == apply(_, Write(d)); Kani side K-RT-2 proves Runtime::report_tracked_write == ref_write
/// `Runtime::report_tracked_write(d)` for `d` in 0..=2 (LOW, MEDIUM, HIGH).
pub fn ref_write(r: Revs, d: u8) -> Revs //-
//@ pub fn ref_write(r: Revs, d: u8) -> (out: Revs)
    //@ requires d <= 2,
    //@ ensures revs_view(out) =~= apply(revs_view(r), Op::Write(d as nat)),
{
    Revs { r0: r.r0, r1: if d >= 1 { r.r0 } else { r.r1 }, r2: if d >= 2 { r.r0 } else { r.r2 } }
}

//@ob id=R-REF-3 kind=R props=C02,C01,C04 fn=Runtime::last_changed_revision
//@ pre: d in 0..=3
//@ post: (Verus side) ref_last_changed == last_changed spec; Kani side K-RT-3 proves Runtime::last_changed_revision == ref_last_changed
/// `Runtime::last_changed_revision(d)` for `d` in 0..=3 (3 = NEVER_CHANGE).
pub fn ref_last_changed(r: Revs, d: u8) -> usize //-
//@ pub fn ref_last_changed(r: Revs, d: u8) -> (out: usize)
    //@ requires d <= 3,
    //@ ensures out as nat == last_changed(revs_view(r), d as nat),
{
    if d == 0 {
        r.r0
    } else if d == 1 {
        r.r1
    } else if d == 2 {
        r.r2
    } else {
        1
    }
}

//@ob id=R-REF-4 kind=R props=C02,C01,C03,C04 fn=MemoHeader::shallow_verify_memo
//@ pre: d in 0..=3
//@ post: (Verus side) ref_shallow == (verified_at == current || last_changed(d) <= verified_at); Kani side K-MCA-1/K-MCA-2 prove shallow_verify_memo(..).yes() == ref_shallow
/// `shallow_verify_memo`: may a memo verified at `verified_at` with durability `d` be accepted
/// without looking at its inputs?
pub fn ref_shallow(r: Revs, verified_at: usize, d: u8) -> bool //-
//@ pub fn ref_shallow(r: Revs, verified_at: usize, d: u8) -> (out: bool)
    //@ requires d <= 3,
    //@ ensures out == (verified_at == r.r0 || last_changed(revs_view(r), d as nat) <= verified_at as nat),
{
    verified_at == r.r0 || ref_last_changed(r, d) <= verified_at
}
