// L-ID: identities over whole histories, from the per-step contracts discharged by Kani on the real functions:
// K-TBL-1 (`make_id` / `split_id` are inverse, `make_id` is injective), K-TBL-2 (one allocation step hands out
// `make_id(page, fill)` and increments the fill, refusing at capacity), K-ID-2 (`next_generation`: same index,
// generation + 1, refused at u32::MAX), K-TS-8 / K-TS-5 / K-INT-3 (a reused slot is handed out under the next
// generation).
use vstd::prelude::*;
verus! {

pub open spec fn page_len() -> nat { 128 }

/// An identity as (page, slot, generation); `make_id(page, slot)` of K-TBL-1 is injective in (page, slot), and
/// the generation is a separate component of `Id` (K-ID-1).
pub struct Ident { pub page: nat, pub slot: nat, pub generation: nat }

// ---------------------------------------------------------------------------------------------
// fresh allocation: a page's fill level only grows (K-TBL-2)
// ---------------------------------------------------------------------------------------------
/// The ids handed out by `n` successful allocation steps on page `p` starting from fill level `f0`.
pub open spec fn allocated(p: nat, f0: nat, n: nat) -> Seq<Ident>
    decreases n
{
    if n == 0 { Seq::<Ident>::empty() } else {
        allocated(p, f0, (n - 1) as nat).push(Ident { page: p, slot: (f0 + n - 1) as nat, generation: 0 })
    }
}

proof fn lemma_allocated_shape(p: nat, f0: nat, n: nat)
    ensures allocated(p, f0, n).len() == n,
            forall|i: int| #![auto] 0 <= i < n ==> allocated(p, f0, n)[i] == (Ident { page: p, slot: (f0 + i) as nat, generation: 0 }),
    decreases n
{
    if n > 0 {
        lemma_allocated_shape(p, f0, (n - 1) as nat);
    }
}

//@ob id=L-ID-1 kind=L props=C24 fn=PageView::allocate,make_id
//@ pre: any page, any starting fill level f0, any number n of successful allocation steps with f0 + n <= page_len() (K-TBL-2 refuses beyond); a second page q != p with its own allocations
//@ post: all identities handed out are pairwise distinct - within a page because the fill level only grows, across pages because the page is part of the identity - and every slot index stays below page_len()
proof fn lemma_fresh_ids_distinct(p: nat, f0: nat, n: nat, q: nat, g0: nat, m: nat)
    requires p != q, f0 + n <= page_len(), g0 + m <= page_len(),
    ensures ({
        let a = allocated(p, f0, n);
        let b = allocated(q, g0, m);
        &&& a.no_duplicates()
        &&& forall|i: int, j: int| #![auto] 0 <= i < a.len() && 0 <= j < b.len() ==> a[i] != b[j]
        &&& forall|i: int| #![auto] 0 <= i < a.len() ==> a[i].slot < page_len()
    })
{
    lemma_allocated_shape(p, f0, n);
    lemma_allocated_shape(q, g0, m);
}

// ---------------------------------------------------------------------------------------------
// reuse: every reuse of a slot bumps the generation (K-ID-2)
// ---------------------------------------------------------------------------------------------
pub open spec fn next_generation(id: Ident) -> Option<Ident> {
    if id.generation < 0xFFFF_FFFF { Some(Ident { generation: id.generation + 1, ..id }) } else { None }
}

/// The identities a slot has carried after `n` successful reuses, oldest first.
pub open spec fn lineage(first: Ident, n: nat) -> Seq<Ident>
    decreases n
{
    if n == 0 { seq![first] } else {
        let prev = lineage(first, (n - 1) as nat);
        match next_generation(prev.last()) {
            Some(id) => prev.push(id),
            None => prev,   // the slot is leaked instead of reused (K-TS-8, find_reusable_slot)
        }
    }
}

proof fn lemma_lineage_shape(first: Ident, n: nat)
    ensures ({
        let l = lineage(first, n);
        &&& 1 <= l.len() <= n + 1
        &&& forall|i: int| #![auto] 0 <= i < l.len() ==> l[i] == (Ident { generation: first.generation + i as nat, ..first })
        &&& forall|i: int| #![auto] 0 <= i < l.len() ==> l[i].generation <= 0xFFFF_FFFF || i == 0
    })
    decreases n
{
    if n > 0 {
        lemma_lineage_shape(first, (n - 1) as nat);
    }
}

//@ob id=L-ID-2 kind=L props=C07,C06 fn=Id::next_generation
//@ pre: a slot first handed out under any identity; any number of reclamations and reuses of that slot
//@ post: every identity the slot has ever carried is different from every other one (same page and slot, strictly increasing generation; at the maximal generation the slot is leaked, never wrapped) - so a memo, dependency edge or handle made for an earlier occupant can never be looked up with a later occupant's identity
proof fn lemma_reused_slot_ids_distinct(first: Ident, n: nat)
    ensures lineage(first, n).no_duplicates(),
            forall|i: int| #![auto] 0 <= i < lineage(first, n).len() ==> lineage(first, n)[i].page == first.page && lineage(first, n)[i].slot == first.slot,
{
    lemma_lineage_shape(first, n);
}

} // verus!
fn main() {}
