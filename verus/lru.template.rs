// V-LRU: `Lru` of /repo/src/function/eviction/lru.rs.  The function bodies marked with a BODY placeholder are
// extracted mechanically from the real source on every run (tools/verus_run.py); the only added lines are
// the contracts below and the ghost / invariant / decreases lines of lru.annot, spliced at textual anchors.
// Dropped by the extraction: the `impl EvictionPolicy for Lru` trait header (Verus rejects `requires` on
// trait impls, so the functions are checked as inherent methods with identical signatures), fn attributes
// (`#[inline]`), and the `Mutex` lock in `insert` (modelled by the trusted `lock_mut`).
// Trusted (external_body): the specification of hashlink's LinkedHashSet (insert = move-to-back,
// pop_front, len, clear) and of `Mutex::{get_mut, lock}`.
use vstd::prelude::*;
use std::num::NonZeroUsize;
verus! {

#[derive(Clone, Copy, PartialEq, Eq)]
pub struct Id { pub bits: u64 }

#[verifier::external_body]
#[verifier::reject_recursive_types(K)]
pub struct FxLinkedHashSet<K> { inner: std::collections::VecDeque<K> }

impl<K> FxLinkedHashSet<K> {
    /// Recency order: least recently used first.
    pub uninterp spec fn view(&self) -> Seq<K>;

    #[verifier::external_body]
    pub fn len(&self) -> (r: usize)
        ensures r == self@.len()
    { unimplemented!() }

    #[verifier::external_body]
    pub fn pop_front(&mut self) -> (r: Option<K>)
        ensures
            old(self)@.len() == 0 ==> r.is_none() && final(self)@ == old(self)@,
            old(self)@.len() > 0 ==> r == Some(old(self)@[0]) && final(self)@ == old(self)@.subrange(1, old(self)@.len() as int),
    { unimplemented!() }

    #[verifier::external_body]
    pub fn clear(&mut self)
        ensures final(self)@.len() == 0
    { unimplemented!() }
}

#[verifier::external_body]
#[verifier::reject_recursive_types(T)]
pub struct Mutex<T> { inner: std::cell::RefCell<T> }
impl<T> Mutex<T> {
    pub uninterp spec fn view(&self) -> T;
    #[verifier::external_body]
    pub fn get_mut(&mut self) -> (r: &mut T)
        ensures *r == old(self)@, *final(r) == final(self)@
    { unimplemented!() }
}

pub struct Lru {
    capacity: Option<NonZeroUsize>,
    set: Mutex<FxLinkedHashSet<Id>>,
}

pub open spec fn cap_of(c: usize) -> Option<int> { if c == 0 { None } else { Some(c as int) } }

impl Lru {
    pub closed spec fn cap(&self) -> Option<int> {
        match self.capacity { Some(c) => Some(c.get() as int), None => None }
    }
    pub closed spec fn order(&self) -> Seq<Id> { self.set@@ }

    //@sig for_each_evicted: fn for_each_evicted(&mut self, mut cb: impl FnMut(Id))
    //@ob id=V-LRU-1 kind=V props=C05 fn=Lru::for_each_evicted
    //@ pre: any recency order s (unbounded length), any capacity (None = disabled, or c >= 1); the callback may be called on any id
    //@ post: capacity unchanged; disabled => nothing changes; capacity c => the remaining order is a suffix of s of length <= c (so at most c remain, whatever is dropped is less recently used than everything kept, relative order kept; C05 does not forbid dropping more, so the exact count is not demanded); loop terminates
    fn for_each_evicted(&mut self, mut cb: impl FnMut(Id))
        requires forall|a: Id| cb.requires((a,)),
        ensures
            final(self).cap() == old(self).cap(),
            old(self).cap().is_none() ==> final(self).order() == old(self).order(),
            old(self).cap().is_some() ==> {
                let cap = old(self).cap().unwrap();
                let n = old(self).order().len() as int;
                let m = final(self).order().len() as int;
                &&& m <= n
                &&& final(self).order() == old(self).order().subrange(n - m, n)
                &&& m <= cap
            },
    {@@BODY:for_each_evicted@@}

    //@sig set_capacity: fn set_capacity(&mut self, capacity: usize)
    //@ob id=V-LRU-2 kind=V props=C05 fn=Lru::set_capacity
    //@ pre: any state, any new capacity
    //@ post: capacity' == (0 => disabled, c => Some(c)); disabling clears the recency set (nothing stays scheduled for eviction); otherwise the recency order is kept
    fn set_capacity(&mut self, capacity: usize)
        ensures
            final(self).cap() == cap_of(capacity),
            capacity == 0 ==> final(self).order().len() == 0,
            capacity != 0 ==> final(self).order() == old(self).order(),
    {@@BODY:set_capacity@@}
}

//@ob id=L-LRU-1 kind=L props=C05 fn=Lru::for_each_evicted
//@ pre: the postcondition of V-LRU-1: the kept order is the length-m suffix of s with m <= min(|s|, c), capacity c >= 1
//@ post: at most c entries remain; every kept entry is one of the c most recently used of s (position >= |s| - c); the dropped entries are exactly the positions below |s| - m, i.e. before every kept one in recency order
proof fn lemma_lru_bound(s: Seq<Id>, c: int, m: int)
    requires c >= 1, 0 <= m <= s.len(), m <= c,
    ensures ({
        let n = s.len() as int;
        let kept = s.subrange(n - m, n);
        &&& kept.len() == m
        &&& kept.len() <= c
        &&& forall|i: int| 0 <= i < kept.len() ==> kept[i] == s[n - m + i] && n - m + i >= n - c
    })
{
}

} // verus!
fn main() {}
