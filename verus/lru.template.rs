// V-LRU: `Lru` of /repo/src/function/eviction/lru.rs.  The function bodies marked with a BODY placeholder are
// extracted mechanically from the real source on every run (tools/verus_run.py); the only added lines are
// the contracts below and the ghost / invariant / decreases lines of lru.annot, spliced at textual anchors.
// Dropped by the extraction: the `impl EvictionPolicy for Lru` trait header (Verus rejects `requires` on
// trait impls, so the functions are checked as inherent methods with identical signatures), fn attributes
// (`#[inline]`), and the `Mutex` lock in `insert` (modelled by the trusted `lock_mut`).
// Trusted (external_body): the specification of hashlink's LinkedHashSet (insert = move-to-back,
// pop_front, len, clear) and of `Mutex::{get_mut, lock}`.
use vstd::prelude::*;
use std::num::NonZeroUsize;
verus! {

#[derive(Clone, Copy, PartialEq, Eq)]
pub struct Id { pub bits: u64 }

#[verifier::external_body]
#[verifier::reject_recursive_types(K)]
pub struct FxLinkedHashSet<K> { inner: std::collections::VecDeque<K> }

impl<K> FxLinkedHashSet<K> {
    /// Recency order: least recently used first.
    pub uninterp spec fn view(&self) -> Seq<K>;

    #[verifier::external_body]
    pub fn len(&self) -> (r: usize)
        ensures r == self@.len()
    { unimplemented!() }

    #[verifier::external_body]
    pub fn pop_front(&mut self) -> (r: Option<K>)
        ensures
            old(self)@.len() == 0 ==> r.is_none() && final(self)@ == old(self)@,
            old(self)@.len() > 0 ==> r == Some(old(self)@[0]) && final(self)@ == old(self)@.subrange(1, old(self)@.len() as int),
    { unimplemented!() }

    #[verifier::external_body]
    pub fn clear(&mut self)
        ensures final(self)@.len() == 0
    { unimplemented!() }

    /// hashlink 0.12 `LinkedHashSet::insert`: "If the set did not have this value present, inserts it at the
    /// *back* of the internal linked list and returns true, otherwise it moves the existing value to the
    /// *back* of the internal linked list and returns false."
    #[verifier::external_body]
    pub fn insert(&mut self, k: K) -> (r: bool)
        ensures
            final(self)@ == moved_to_back(old(self)@, k),
            r == !old(self)@.contains(k),
    { unimplemented!() }

    /// hashlink 0.12 `LinkedHashSet::replace`: "If a previous value existed, returns the replaced value.  In
    /// this case, the value's position in the internal linked list is *not* changed."
    #[verifier::external_body]
    pub fn replace(&mut self, k: K) -> (r: Option<K>)
        ensures
            old(self)@.contains(k) ==> final(self)@ == old(self)@ && r.is_some(),
            !old(self)@.contains(k) ==> final(self)@ == old(self)@.push(k) && r.is_none(),
    { unimplemented!() }

    /// hashlink 0.12 `LinkedHashSet::get_or_insert`: an existing value keeps its position.
    #[verifier::external_body]
    pub fn get_or_insert(&mut self, k: K) -> (r: &K)
        ensures
            old(self)@.contains(k) ==> final(self)@ == old(self)@,
            !old(self)@.contains(k) ==> final(self)@ == old(self)@.push(k),
    { unimplemented!() }

    #[verifier::external_body]
    pub fn remove(&mut self, k: &K) -> (r: bool)
        ensures
            final(self)@ == without(old(self)@, *k),
            r == old(self)@.contains(*k),
    { unimplemented!() }

    #[verifier::external_body]
    pub fn to_back(&mut self, k: &K) -> (r: bool)
        ensures
            old(self)@.contains(*k) ==> final(self)@ == moved_to_back(old(self)@, *k) && r,
            !old(self)@.contains(*k) ==> final(self)@ == old(self)@ && !r,
    { unimplemented!() }

    #[verifier::external_body]
    pub fn to_front(&mut self, k: &K) -> (r: bool)
        ensures
            old(self)@.contains(*k) ==> final(self)@ == seq![*k] + without(old(self)@, *k) && r,
            !old(self)@.contains(*k) ==> final(self)@ == old(self)@ && !r,
    { unimplemented!() }

    #[verifier::external_body]
    pub fn pop_back(&mut self) -> (r: Option<K>)
        ensures
            old(self)@.len() == 0 ==> r.is_none() && final(self)@ == old(self)@,
            old(self)@.len() > 0 ==> r == Some(old(self)@.last()) && final(self)@ == old(self)@.drop_last(),
    { unimplemented!() }

    #[verifier::external_body]
    pub fn contains(&self, k: &K) -> (r: bool)
        ensures r == self@.contains(*k)
    { unimplemented!() }

    #[verifier::external_body]
    pub fn is_empty(&self) -> (r: bool)
        ensures r == (self@.len() == 0)
    { unimplemented!() }
}

/// `s` without (every occurrence of) `k`, order kept.
pub open spec fn without<K>(s: Seq<K>, k: K) -> Seq<K> { s.filter(|x: K| x != k) }
/// The recency order after `k` has been used: `k` is the most recent entry, the others keep their order.
pub open spec fn moved_to_back<K>(s: Seq<K>, k: K) -> Seq<K> { without(s, k).push(k) }

#[verifier::external_body]
#[verifier::reject_recursive_types(T)]
pub struct Mutex<T> { inner: std::cell::RefCell<T> }
impl<T> Mutex<T> {
    pub uninterp spec fn view(&self) -> T;
    #[verifier::external_body]
    pub fn get_mut(&mut self) -> (r: &mut T)
        ensures *r == old(self)@, *final(r) == final(self)@
    { unimplemented!() }
}
impl<K> Mutex<FxLinkedHashSet<K>> {
    /// `Mutex::default()` of an empty set.
    #[verifier::external_body]
    pub fn default() -> (r: Self)
        ensures r@@.len() == 0
    { unimplemented!() }
}

pub struct Lru {
    capacity: Option<NonZeroUsize>,
    set: Mutex<FxLinkedHashSet<Id>>,
}

pub open spec fn cap_of(c: usize) -> Option<int> { if c == 0 { None } else { Some(c as int) } }

impl Lru {
    pub closed spec fn cap(&self) -> Option<int> {
        match self.capacity { Some(c) => Some(c.get() as int), None => None }
    }
    pub closed spec fn order(&self) -> Seq<Id> { self.set@@ }

    //@sig new: fn new(cap: usize) -> Self
    //@ob id=V-LRU-3 kind=V props=C05 fn=Lru::new
    //@ pre: any capacity
    //@ post: capacity == (0 => disabled, c => Some(c)); nothing is scheduled for eviction
    fn new(cap: usize) -> (r: Self)
        ensures r.cap() == cap_of(cap), r.order().len() == 0,
    {@@BODY:new@@}

    //@sig insert: fn insert(&self, id: Id)
    //@ob id=V-LRU-4 kind=V props=C05 fn=Lru::insert
    //@ pre: any recency order, any id (extraction rewrites `&self` + `self.set.lock()` to `&mut self` + `self.set.get_mut()`: the lock is what makes the access exclusive)
    //@ post: id becomes the most recently used entry; every other entry keeps its relative position; capacity unchanged
    fn insert(&mut self, id: Id)
        ensures
            final(self).cap() == old(self).cap(),
            final(self).order() == moved_to_back(old(self).order(), id),
    {@@BODY:insert@@}

    //@sig record_use: fn record_use(&self, id: Id)
    //@ob id=V-LRU-5 kind=V props=C05 fn=Lru::record_use
    //@ pre: any state, any id
    //@ post: eviction disabled (capacity 0) => nothing is recorded; otherwise id becomes the most recently used entry and the others keep their order (so "least recently requested" in V-LRU-1 is about requests, not about first insertion)
    fn record_use(&mut self, id: Id)
        ensures
            final(self).cap() == old(self).cap(),
            old(self).cap().is_none() ==> final(self).order() == old(self).order(),
            old(self).cap().is_some() ==> final(self).order() == moved_to_back(old(self).order(), id),
    {@@BODY:record_use@@}

    //@sig for_each_evicted: fn for_each_evicted(&mut self, mut cb: impl FnMut(Id))
    //@ob id=V-LRU-1 kind=V props=C05 fn=Lru::for_each_evicted
    //@ pre: any recency order s (unbounded length), any capacity (None = disabled, or c >= 1); the callback may be called on any id
    //@ post: capacity unchanged; disabled => nothing changes; capacity c => the remaining order is a suffix of s of length <= c (so at most c remain, whatever is dropped is less recently used than everything kept, relative order kept; C05 does not forbid dropping more, so the exact count is not demanded); loop terminates
    fn for_each_evicted(&mut self, mut cb: impl FnMut(Id))
        requires forall|a: Id| cb.requires((a,)),
        ensures
            final(self).cap() == old(self).cap(),
            old(self).cap().is_none() ==> final(self).order() == old(self).order(),
            old(self).cap().is_some() ==> {
                let cap = old(self).cap().unwrap();
                let n = old(self).order().len() as int;
                let m = final(self).order().len() as int;
                &&& m <= n
                &&& final(self).order() == old(self).order().subrange(n - m, n)
                &&& m <= cap
            },
    {@@BODY:for_each_evicted@@}

    //@sig set_capacity: fn set_capacity(&mut self, capacity: usize)
    //@ob id=V-LRU-2 kind=V props=C05 fn=Lru::set_capacity
    //@ pre: any state, any new capacity
    //@ post: capacity' == (0 => disabled, c => Some(c)); disabling clears the recency set (nothing stays scheduled for eviction); otherwise the recency order is kept
    fn set_capacity(&mut self, capacity: usize)
        ensures
            final(self).cap() == cap_of(capacity),
            capacity == 0 ==> final(self).order().len() == 0,
            capacity != 0 ==> final(self).order() == old(self).order(),
    {@@BODY:set_capacity@@}
}

//@ob id=L-LRU-2 kind=L props=C05 fn=Lru::record_use,Lru::for_each_evicted
//@ pre: the postconditions of V-LRU-5 and V-LRU-1 composed: order s, a use of id, then an eviction pass that keeps a suffix of length m >= 1
//@ post: the entry used last is kept, and it is kept exactly once (a request never leaves a stale duplicate that could be evicted in its place)
proof fn lemma_last_used_is_kept(s: Seq<Id>, id: Id, m: int)
    requires 1 <= m <= moved_to_back(s, id).len(),
    ensures ({
        let t = moved_to_back(s, id);
        let kept = t.subrange(t.len() - m, t.len() as int);
        &&& kept.last() == id
        &&& forall|i: int| 0 <= i < kept.len() - 1 ==> kept[i] != id
    })
{
    let w = without(s, id);
    let t = moved_to_back(s, id);
    assert(t.len() == w.len() + 1);
    assert forall|i: int| 0 <= i < w.len() implies w[i] != id by {
        broadcast use vstd::seq_lib::group_filter_ensures;   // every element of a filter satisfies the predicate
    }
    let kept = t.subrange(t.len() - m, t.len() as int);
    assert forall|i: int| 0 <= i < kept.len() - 1 implies kept[i] != id by {
        assert(kept[i] == t[t.len() - m + i]);
        assert(t[t.len() - m + i] == w[t.len() - m + i]);
    }
}

//@ob id=L-LRU-1 kind=L props=C05 fn=Lru::for_each_evicted
//@ pre: the postcondition of V-LRU-1: the kept order is the length-m suffix of s with m <= min(|s|, c), capacity c >= 1
//@ post: at most c entries remain; every kept entry is one of the c most recently used of s (position >= |s| - c); the dropped entries are exactly the positions below |s| - m, i.e. before every kept one in recency order
proof fn lemma_lru_bound(s: Seq<Id>, c: int, m: int)
    requires c >= 1, 0 <= m <= s.len(), m <= c,
    ensures ({
        let n = s.len() as int;
        let kept = s.subrange(n - m, n);
        &&& kept.len() == m
        &&& kept.len() <= c
        &&& forall|i: int| 0 <= i < kept.len() ==> kept[i] == s[n - m + i] && n - m + i >= n - c
    })
{
}

} // verus!
fn main() {}
